(* Container files: cut-anywhere / marker corruption (C14) and writer histories (C03). *)
From AvroV Require Import Base Varint Schema Bytes Names Codec Container VarintP BytesP.
From Coq Require Import ZifyN ZifyBool ZifyNat.
Open Scope N_scope.

Lemma firstn_app_le {A} (l1 l2 : list A) j : (j <= length l1)%nat -> firstn j (l1 ++ l2) = firstn j l1.
Proof. intros. rewrite firstn_app. replace (j - length l1)%nat with 0%nat by lia. cbn. apply app_nil_r. Qed.
Lemma firstn_app_ge {A} (l1 l2 : list A) j :
  (length l1 <= j)%nat -> firstn j (l1 ++ l2) = l1 ++ firstn (j - length l1) l2.
Proof. intros. rewrite firstn_app. rewrite firstn_all2 by lia. reflexivity. Qed.

Lemma take_short n bs : lenN bs < n -> take n bs = None.
Proof.
  revert n. induction bs as [|b bs IH]; intros n H; cbn [take].
  - rewrite lenN_nil in H. assert (E : (n =? 0) = false) by lia. rewrite E. reflexivity.
  - rewrite lenN_cons in H. assert (E : (n =? 0) = false) by lia. rewrite E.
    rewrite IH by lia. reflexivity.
Qed.

Lemma read_usize_enc n r : n < 2 ^ 63 -> read_usize (enc_long (Z.of_N n) ++ r) = Ok (n, r).
Proof.
  intros H. unfold read_usize. rewrite long_roundtrip by (apply in_i64_spec; lia).
  assert (E : (Z.of_N n <? 0)%Z = false) by lia. rewrite E, N2Z.id. reflexivity.
Qed.

Lemma read_usize_prefix z k : (k < length (enc_long z))%nat -> read_usize (firstn k (enc_long z)) = Err.
Proof. intros H. unfold read_usize. rewrite long_prefix_eof by exact H. reflexivity. Qed.

Section Cut.
Variable c : cfg.
Variable cd : codec.
Variable dec_item : bytes -> res (value * bytes).
Variable marker : bytes.
Hypothesis marker_len : length marker = 16%nat.

Record blk := mkBlk { b_vals : list value; b_payload : bytes }.

Definition enc_blk (b : blk) : bytes :=
  enc_long (Z.of_N (lenN (b_vals b))) ++ enc_long (Z.of_N (lenN (b_payload b))) ++ b_payload b ++ marker.

(* a block of a spec-conforming file: announces exactly the values its payload holds *)
Definition good_blk (b : blk) : Prop :=
  b_vals b <> [] /\ lenN (b_vals b) < 2 ^ 63 /\
  lenN (b_payload b) <= max_alloc c /\ lenN (b_payload b) < 2 ^ 63 /\
  exists buf, c_decomp cd (b_payload b) = Ok buf /\
              read_items dec_item (length (b_vals b)) buf = (b_vals b, true).

Definition body (bl : list blk) : bytes := concat (map enc_blk bl).

(* what reading a file cut after k bytes of its body must deliver *)
Fixpoint expected (bl : list blk) (k : nat) : list value * rend :=
  match bl with
  | [] => ([], Clean)
  | b :: bl' =>
    let n := length (enc_blk b) in
    if (k =? 0)%nat then ([], Clean)
    else if (k <? n)%nat then ([], Failed)
    else let '(vs, e) := expected bl' (k - n) in (b_vals b ++ vs, e)
  end.

Lemma nonempty_firstn {A} (l : list A) j : (0 < j)%nat -> l <> [] -> firstn j l <> [].
Proof. destruct l, j; cbn; intros; try lia; congruence. Qed.

Lemma partial_block_error g b j : good_blk b -> (0 < j < length (enc_blk b))%nat ->
  read_blocks c cd dec_item (S g) marker (firstn j (enc_blk b)) = ([], Failed).
Proof.
  intros (Hne & Hcnt & Hmax & Hsz & _) [Hj0 Hj]. unfold enc_blk in *.
  set (cb := enc_long (Z.of_N (lenN (b_vals b)))) in *.
  set (sb := enc_long (Z.of_N (lenN (b_payload b)))) in *.
  set (p := b_payload b) in *.
  assert (Hc0 : (0 < length cb)%nat) by (pose proof (enc_long_length_pos (Z.of_N (lenN (b_vals b)))); exact H).
  cbn [read_blocks].
  destruct (firstn j (cb ++ sb ++ p ++ marker)) as [|x xs] eqn:Hfn.
  { exfalso. apply (f_equal (@length _)) in Hfn. rewrite firstn_length in Hfn. cbn [length] in Hfn.
    rewrite !app_length in *. lia. }
  rewrite <- Hfn. clear Hfn x xs.
  destruct (le_lt_dec (length cb) j) as [Hc|Hc].
  2:{ rewrite firstn_app_le by lia. unfold cb. rewrite read_usize_prefix by (fold cb; lia). reflexivity. }
  rewrite firstn_app_ge by lia. unfold cb at 1. rewrite read_usize_enc by exact Hcnt. fold cb.
  set (j1 := (j - length cb)%nat).
  destruct (le_lt_dec (length sb) j1) as [Hs|Hs].
  2:{ rewrite firstn_app_le by lia. unfold sb. rewrite read_usize_prefix by (fold sb; lia). reflexivity. }
  rewrite firstn_app_ge by lia. unfold sb at 1. rewrite read_usize_enc by exact Hsz. fold sb.
  set (j2 := (j1 - length sb)%nat).
  unfold safe_len. assert (E : (lenN p <=? max_alloc c) = true) by (apply N.leb_le; exact Hmax). rewrite E.
  rewrite !app_length, marker_len in Hj.
  destruct (le_lt_dec (length p) j2) as [Hp|Hp].
  - rewrite firstn_app_ge by lia. rewrite take_app.
    rewrite take_short; [reflexivity|].
    unfold lenN. rewrite firstn_length, marker_len. subst j2 j1. lia.
  - rewrite firstn_app_le by lia. rewrite take_short; [reflexivity|].
    unfold lenN. rewrite firstn_length. lia.
Qed.

Lemma whole_block_step g b rest : good_blk b ->
  read_blocks c cd dec_item (S g) marker (enc_blk b ++ rest) =
    let '(more, e) := read_blocks c cd dec_item g marker rest in (b_vals b ++ more, e).
Proof.
  intros (Hne & Hcnt & Hmax & Hsz & buf & Hdec & Hitems). unfold enc_blk.
  cbn [read_blocks].
  destruct ((enc_long (Z.of_N (lenN (b_vals b))) ++ enc_long (Z.of_N (lenN (b_payload b))) ++ b_payload b ++ marker) ++ rest)
    as [|x xs] eqn:He.
  { exfalso. pose proof (enc_long_nonempty (Z.of_N (lenN (b_vals b)))).
    destruct (enc_long (Z.of_N (lenN (b_vals b)))); [congruence|discriminate]. }
  rewrite <- He. clear He x xs.
  rewrite <- !app_assoc. rewrite read_usize_enc by exact Hcnt. rewrite read_usize_enc by exact Hsz.
  unfold safe_len. assert (E : (lenN (b_payload b) <=? max_alloc c) = true) by (apply N.leb_le; exact Hmax). rewrite E.
  rewrite take_app.
  rewrite (take_app_n 16) by (unfold lenN; rewrite marker_len; reflexivity).
  rewrite bytes_eqb_refl, Hdec.
  assert (E0 : (lenN (b_vals b) =? 0) = false).
  { apply N.eqb_neq. destruct (b_vals b); [congruence|rewrite lenN_cons; lia]. }
  rewrite E0. unfold lenN at 1. rewrite Nat2N.id, Hitems. reflexivity.
Qed.

Theorem cut_anywhere : forall bl k g, Forall good_blk bl -> (length bl < g)%nat -> (k <= length (body bl))%nat ->
  read_blocks c cd dec_item g marker (firstn k (body bl)) = expected bl k.
Proof.
  induction bl as [|b bl IH]; intros k g Hg Hf Hk.
  - cbn in *. destruct g; [lia|]. replace k with 0%nat by lia. reflexivity.
  - destruct g as [|g]; [lia|]. cbn [length] in Hf. inversion Hg as [|? ? Hb Hbl]; subst.
    unfold body in *. cbn [map concat] in *. cbn [expected].
    destruct (Nat.eqb_spec k 0) as [->|Hk0]; [reflexivity|].
    destruct (Nat.ltb_spec k (length (enc_blk b))) as [Hlt|Hge].
    + rewrite firstn_app_le by lia. apply partial_block_error; [exact Hb|lia].
    + rewrite firstn_app_ge by lia. rewrite whole_block_step by exact Hb.
      rewrite IH; [reflexivity|exact Hbl|lia|]. rewrite app_length in Hk. lia.
Qed.

(* reading the whole body: all values, clean end *)
Corollary read_whole bl g : Forall good_blk bl -> (length bl < g)%nat ->
  read_blocks c cd dec_item g marker (body bl) = (concat (map b_vals bl), Clean).
Proof.
  intros Hg Hf. rewrite <- (firstn_all (body bl)). rewrite cut_anywhere by (try assumption; lia).
  clear Hf. induction bl as [|b bl IH]; [reflexivity|]. inversion Hg; subst.
  unfold body. cbn [map concat expected]. rewrite app_length.
  destruct (Nat.eqb_spec (length (enc_blk b) + length (concat (map enc_blk bl))) 0) as [E|E].
  { pose proof (enc_long_length_pos (Z.of_N (lenN (b_vals b)))). unfold enc_blk in E. rewrite !app_length in E. lia. }
  destruct (Nat.ltb_spec (length (enc_blk b) + length (concat (map enc_blk bl))) (length (enc_blk b))); [lia|].
  replace (length (enc_blk b) + length (concat (map enc_blk bl)) - length (enc_blk b))%nat
    with (length (body bl)) by (unfold body; lia).
  rewrite IH by assumption. reflexivity.
Qed.

(* a block whose trailing marker differs from the file's marker: nothing of it is delivered *)
Lemma bad_marker_block g b m' rest : good_blk b -> length m' = 16%nat -> m' <> marker ->
  read_blocks c cd dec_item (S g) marker
    (enc_long (Z.of_N (lenN (b_vals b))) ++ enc_long (Z.of_N (lenN (b_payload b))) ++ b_payload b ++ m' ++ rest)
  = ([], Failed).
Proof.
  intros (Hne & Hcnt & Hmax & Hsz & _) Hl Hm.
  cbn [read_blocks].
  destruct (enc_long (Z.of_N (lenN (b_vals b))) ++ enc_long (Z.of_N (lenN (b_payload b))) ++ b_payload b ++ m' ++ rest)
    as [|x xs] eqn:He.
  { exfalso. pose proof (enc_long_nonempty (Z.of_N (lenN (b_vals b)))).
    destruct (enc_long (Z.of_N (lenN (b_vals b)))); [congruence|discriminate]. }
  rewrite <- He. clear He x xs.
  rewrite read_usize_enc by exact Hcnt. rewrite read_usize_enc by exact Hsz.
  unfold safe_len. assert (E : (lenN (b_payload b) <=? max_alloc c) = true) by (apply N.leb_le; exact Hmax). rewrite E.
  rewrite take_app.
  rewrite (take_app_n 16) by (unfold lenN; rewrite Hl; reflexivity).
  destruct (bytes_eqb m' marker) eqn:E2; [apply bytes_eqb_eq in E2; contradiction|reflexivity].
Qed.

Theorem marker_corruption pre b post m' g :
  Forall good_blk pre -> good_blk b -> length m' = 16%nat -> m' <> marker -> (length pre < g)%nat ->
  read_blocks c cd dec_item g marker
    (body pre ++ (enc_long (Z.of_N (lenN (b_vals b))) ++ enc_long (Z.of_N (lenN (b_payload b)))
                  ++ b_payload b ++ m') ++ body post)
  = (concat (map b_vals pre), Failed).
Proof.
  revert g. induction pre as [|p pre IH]; intros g Hpre Hb Hl Hm Hg.
  - destruct g; [lia|]. cbn [body map concat app]. rewrite <- !app_assoc.
    apply bad_marker_block; assumption.
  - destruct g; [cbn in Hg; lia|]. inversion Hpre; subst. unfold body. cbn [map concat]. rewrite <- app_assoc.
    rewrite whole_block_step by assumption. fold (body pre).
    rewrite IH; try assumption; [reflexivity|cbn [length] in Hg; lia].
Qed.
End Cut.

(* ====================== writer histories (C03) ====================== *)
Section WriterInv.
Variable cd : codec.
Variable cmp : bytes -> bytes.
Hypothesis comp_total : forall x, c_comp cd x = Ok (cmp x).
Variable block_size : N.
Variable hdr_of : wstate -> bytes.
Hypothesis hdr_ext : forall a b, w_meta a = w_meta b -> w_marker a = w_marker b -> hdr_of a = hdr_of b.

Definition wblock (marker : bytes) (g : list bytes) : bytes :=
  enc_long (Z.of_N (lenN g)) ++ enc_long (Z.of_N (lenN (cmp (concat g)))) ++ cmp (concat g) ++ marker.
Definition wbody (marker : bytes) (groups : list (list bytes)) : bytes :=
  concat (map (wblock marker) groups).

(* block phase: the header (or, after append_to, an earlier file) [pre] is in the sink, followed
   by whole blocks that partition the flushed items; the rest is pending *)
Definition InvB (pre : bytes) (its : list bytes) (st : wstate) : Prop :=
  w_hdr st = true /\
  exists (groups : list (list bytes)) (pending : list bytes),
    w_sink st = pre ++ wbody (w_marker st) groups /\
    w_buf st = concat pending /\ w_n st = lenN pending /\
    Forall (fun g => g <> []) groups /\ concat groups ++ pending = its.

(* header phase: nothing written yet *)
Definition Fresh (st : wstate) : Prop :=
  w_hdr st = false /\ w_sink st = [] /\ w_buf st = [] /\ w_n st = 0.

Definition Inv (its : list bytes) (st : wstate) : Prop :=
  (Fresh st /\ its = []) \/ InvB (hdr_of st) its st.

Lemma flushB pre its st : InvB pre its st ->
  exists st', flush cd hdr_of st = Ok st' /\ InvB pre its st' /\ w_n st' = 0 /\ w_buf st' = [] /\
              w_marker st' = w_marker st /\ w_meta st' = w_meta st.
Proof.
  intros (Hh & groups & pend & Hs & Hb & Hc & Hne & Hi).
  unfold flush, maybe_header. rewrite Hh.
  destruct (w_n st =? 0) eqn:Hz.
  - apply N.eqb_eq in Hz. exists st. split; [reflexivity|].
    assert (pend = []) by (destruct pend; [reflexivity|rewrite lenN_cons in Hc; lia]). subst pend.
    cbn [concat] in Hb. repeat split; try assumption.
    exists groups, []. repeat split; assumption.
  - apply N.eqb_neq in Hz. rewrite comp_total. cbn [bind]. eexists. split; [reflexivity|].
    cbn [w_n w_hdr w_marker w_meta w_buf w_sink]. repeat split; try reflexivity.
    exists (groups ++ [pend]), []. repeat split; try reflexivity.
    + rewrite Hs. unfold wbody. rewrite map_app, concat_app. cbn [map concat].
      unfold wblock. rewrite Hb, Hc, app_nil_r, <- !app_assoc. reflexivity.
    + apply Forall_app. split; [exact Hne|]. constructor; [|constructor].
      intros ->. rewrite lenN_nil in Hc. lia.
    + rewrite concat_app. cbn [concat]. rewrite !app_nil_r. exact Hi.
Qed.

Lemma flush_fin st : exists st', flush cd hdr_of st = Ok st' /\ w_hdr st' = true /\ w_n st' = 0.
Proof.
  unfold flush. destruct (w_n (maybe_header hdr_of st) =? 0) eqn:E.
  - eexists. split; [reflexivity|]. apply N.eqb_eq in E. split; [|exact E].
    unfold maybe_header. destruct (w_hdr st) eqn:E2; [exact E2|reflexivity].
  - rewrite comp_total. cbn [bind]. eexists. split; [reflexivity|]. split; reflexivity.
Qed.

Lemma headerB st : Fresh st -> InvB (hdr_of st) [] (maybe_header hdr_of st).
Proof.
  intros (Hh & Hs & Hb & Hn). unfold maybe_header. rewrite Hh. split; [reflexivity|].
  exists [], []. cbn [w_sink w_buf w_n w_marker]. rewrite Hs, Hb, Hn. unfold wbody. cbn.
  rewrite app_nil_r. repeat split; try reflexivity. constructor.
Qed.

Lemma maybe_header_B pre its st : InvB pre its st -> maybe_header hdr_of st = st.
Proof. intros (Hh & _). unfold maybe_header. rewrite Hh. reflexivity. Qed.

Lemma maybe_header_idem st : maybe_header hdr_of (maybe_header hdr_of st) = maybe_header hdr_of st.
Proof. unfold maybe_header. destruct (w_hdr st) eqn:E; [rewrite E; reflexivity|reflexivity]. Qed.

Lemma flush_maybe st : flush cd hdr_of st = flush cd hdr_of (maybe_header hdr_of st).
Proof. unfold flush. rewrite maybe_header_idem. reflexivity. Qed.

Lemma append_maybe st d :
  wstep cd block_size hdr_of st (WAppend d) = wstep cd block_size hdr_of (maybe_header hdr_of st) (WAppend d).
Proof. cbn [wstep]. rewrite maybe_header_idem. reflexivity. Qed.

Lemma hdr_of_maybe st : hdr_of (maybe_header hdr_of st) = hdr_of st.
Proof. unfold maybe_header. destruct (w_hdr st); [reflexivity|]. apply hdr_ext; reflexivity. Qed.

(* appending one datum in block phase *)
Lemma appendB pre its st d : InvB pre its st ->
  InvB pre (its ++ [d]) (fst (wstep cd block_size hdr_of st (WAppend d))) /\
  snd (wstep cd block_size hdr_of st (WAppend d)) = true /\
  w_marker (fst (wstep cd block_size hdr_of st (WAppend d))) = w_marker st /\
  w_meta (fst (wstep cd block_size hdr_of st (WAppend d))) = w_meta st.
Proof.
  intros HB. cbn [wstep]. rewrite (maybe_header_B _ _ _ HB).
  destruct HB as (Hh & groups & pend & Hs & Hb & Hc & Hne & Hi).
  set (st1 := mkW (w_buf st ++ d) (w_n st + 1) true (w_sink st) (w_marker st) (w_meta st)).
  assert (H1 : InvB pre (its ++ [d]) st1).
  { split; [reflexivity|]. exists groups, (pend ++ [d]). unfold st1. cbn [w_sink w_buf w_n w_marker].
    repeat split; try assumption.
    - rewrite concat_app, Hb. cbn [concat]. rewrite app_nil_r. reflexivity.
    - rewrite lenN_app, Hc. reflexivity.
    - rewrite app_assoc, Hi. reflexivity. }
  destruct (block_size <=? lenN (w_buf st1)).
  - destruct (flushB _ _ _ H1) as (st' & Hf & HB' & _ & _ & Hm & Hme). rewrite Hf. cbn [fst snd].
    split; [exact HB'|]. split; [reflexivity|]. split; [exact Hm|exact Hme].
  - cbn [fst snd]. split; [exact H1|]. split; [reflexivity|]. split; reflexivity.
Qed.

Definition step_items (its : list bytes) (o : wop) : list bytes :=
  match o with WAppend d => its ++ [d] | WReset _ => [] | _ => its end.

Definition no_reopen (o : wop) : Prop := match o with WReopen _ => False | _ => True end.

Lemma inv_step its st o : no_reopen o -> Inv its st ->
  Inv (step_items its o) (fst (wstep cd block_size hdr_of st o)).
Proof.
  intros Hno [[HF ->]|HB].
  - (* header phase *)
    destruct o; cbn [step_items]; try contradiction.
    + (* append *) right.
      pose proof (headerB st HF) as HB.
      destruct (appendB _ _ _ d HB) as (H1 & _ & Hm & Hme).
      rewrite append_maybe. cbn [app] in H1.
      erewrite hdr_ext; [exact H1| |].
      * rewrite Hme. unfold maybe_header. destruct (w_hdr st); reflexivity.
      * rewrite Hm. unfold maybe_header. destruct (w_hdr st); reflexivity.
    + (* enc err: header written, nothing else *) right. cbn [wstep fst]. rewrite hdr_of_maybe. apply headerB. exact HF.
    + (* invalid *) left. cbn [wstep fst]. split; [exact HF|reflexivity].
    + (* flush *) right. cbn [wstep].
      pose proof (headerB st HF) as HB. destruct (flushB _ _ _ HB) as (st' & Hf & HB' & _ & _ & Hm & Hme).
      rewrite flush_maybe, Hf. cbn [fst].
      erewrite hdr_ext; [exact HB'| |].
      * rewrite Hme. unfold maybe_header. destruct (w_hdr st); reflexivity.
      * rewrite Hm. unfold maybe_header. destruct (w_hdr st); reflexivity.
    + (* add meta *) left. destruct HF as (Hh & Hs & Hb & Hn). cbn [wstep]. rewrite Hh.
      destruct (starts_with avro_dot k); cbn [fst]; (split; [|reflexivity]); repeat split; assumption.
    + (* reset *) left. cbn [wstep fst]. split; [|reflexivity]. repeat split; reflexivity.
    + (* finish *) right. cbn [wstep].
      pose proof (headerB st HF) as HB. destruct (flushB _ _ _ HB) as (st' & Hf & HB' & _ & _ & Hm & Hme).
      rewrite flush_maybe, Hf. cbn [fst].
      erewrite hdr_ext; [exact HB'| |].
      * rewrite Hme. unfold maybe_header. destruct (w_hdr st); reflexivity.
      * rewrite Hm. unfold maybe_header. destruct (w_hdr st); reflexivity.
  - (* block phase *)
    destruct o; cbn [step_items]; try contradiction.
    + right. destruct (appendB _ _ _ d HB) as (H1 & _ & Hm & Hme).
      erewrite hdr_ext; [exact H1|exact Hme|exact Hm].
    + right. cbn [wstep fst]. rewrite (maybe_header_B _ _ _ HB). exact HB.
    + right. exact HB.
    + right. cbn [wstep]. destruct (flushB _ _ _ HB) as (st' & Hf & HB' & _ & _ & Hm & Hme). rewrite Hf. cbn [fst].
      erewrite hdr_ext; [exact HB'|exact Hme|exact Hm].
    + right. cbn [wstep]. destruct HB as (Hh & Hrest). rewrite Hh. cbn [fst]. split; [exact Hh|exact Hrest].
    + left. cbn [wstep fst]. split; [|reflexivity]. repeat split; reflexivity.
    + right. cbn [wstep]. destruct (flushB _ _ _ HB) as (st' & Hf & HB' & _ & _ & Hm & Hme). rewrite Hf. cbn [fst].
      erewrite hdr_ext; [exact HB'|exact Hme|exact Hm].
Qed.

Fixpoint items_of (acc : list bytes) (ops : list wop) : list bytes :=
  match ops with [] => acc | o :: r => items_of (step_items acc o) r end.

Lemma items_of_finish ops : forall acc, items_of acc (ops ++ [WFinish]) = items_of acc ops.
Proof. induction ops as [|o r IHr]; intros acc; cbn [app items_of step_items]; [reflexivity|apply IHr]. Qed.

Theorem run_inv : forall ops its st, Forall no_reopen ops -> Inv its st ->
  Inv (items_of its ops) (fst (wrun cd block_size hdr_of st ops)).
Proof.
  induction ops as [|o ops IH]; intros its st Hno HI; [exact HI|].
  inversion Hno as [|? ? Ho Hr]; subst. cbn [wrun items_of].
  pose proof (inv_step its st o Ho HI) as H1.
  destruct (wstep cd block_size hdr_of st o) as [st' b] eqn:Es. cbn [fst] in H1.
  specialize (IH _ _ Hr H1).
  destruct (wrun cd block_size hdr_of st' ops) as [st'' bs] eqn:Er. cbn [fst] in IH |- *. exact IH.
Qed.

(* The file a finished history leaves: header, then whole blocks that partition exactly the items
   appended (since the last reset), in order; nothing pending. *)
Theorem finished_file ops marker :
  Forall no_reopen ops ->
  let st := fst (wrun cd block_size hdr_of (winit marker) (ops ++ [WFinish])) in
  exists groups : list (list bytes),
    w_sink st = hdr_of st ++ wbody (w_marker st) groups /\
    concat groups = items_of [] ops /\ Forall (fun g => g <> []) groups.
Proof.
  intros Hno st.
  assert (HI : Inv (items_of [] (ops ++ [WFinish])) st).
  { apply run_inv.
    - apply Forall_app. split; [exact Hno|]. constructor; [exact I|constructor].
    - left. split; [|reflexivity]. repeat split; reflexivity. }
  rewrite items_of_finish in HI.
  (* after a final flush nothing is pending and the header is written *)
  assert (Hfin : w_hdr st = true /\ w_n st = 0).
  { subst st. clear HI. generalize (winit marker) as s0.
    induction ops as [|o r IHr]; intros s0.
    - cbn [app wrun wstep]. destruct (flush_fin s0) as (st' & Hf & Hh & Hn). rewrite Hf. cbn [fst]. split; assumption.
    - cbn [app wrun]. destruct (wstep cd block_size hdr_of s0 o) as [s1 b].
      inversion Hno; subst. specialize (IHr ltac:(assumption) s1).
      destruct (wrun cd block_size hdr_of s1 (r ++ [WFinish])) as [s2 bs]. exact IHr. }
  destruct Hfin as [Hh Hn].
  destruct HI as [[(Hh' & _) _]|(_ & groups & pend & Hs & Hb & Hc & Hne & Hi)]; [congruence|].
  assert (pend = []) by (destruct pend; [reflexivity|rewrite lenN_cons in Hc; lia]). subst pend.
  rewrite app_nil_r in Hi. exists groups. repeat split; assumption.
Qed.
End WriterInv.

(* ====================== reading back what was written ====================== *)
Section Refinement.
Variable c : cfg.
Variable cd : codec.
Variable cmp : bytes -> bytes.
Hypothesis decomp_comp : forall x, c_decomp cd (cmp x) = Ok x.
Variable dec_item : bytes -> res (value * bytes).

(* datum d is the encoding of value v: decoding d followed by anything returns v and the rest *)
Definition item_law (d : bytes) (v : value) : Prop := forall r, dec_item (d ++ r) = Ok (v, r).

Lemma read_items_empty ds vs : Forall2 item_law ds vs -> Forall (fun d => d = []) ds ->
  read_items dec_item (length ds) (concat ds) = (vs, true).
Proof.
  induction 1 as [|d v ds vs Hd Hrest IH]; intros He; [reflexivity|].
  inversion He as [|? ? Hd0 He']; subst. cbn [length concat app read_items].
  assert (Hc : concat ds = []) by (clear - He'; induction He'; [reflexivity|subst; assumption]).
  rewrite Hc in *. specialize (Hd []). cbn [app] in Hd. rewrite Hd. cbn [lenN length N.of_nat N.eqb negb andb].
  rewrite (IH He'). reflexivity.
Qed.

Lemma read_items_concat ds vs : Forall2 item_law ds vs -> Forall (fun d => d <> []) ds ->
  read_items dec_item (length ds) (concat ds) = (vs, true).
Proof.
  induction 1 as [|d v ds vs Hd Hrest IH]; intros Hne; [reflexivity|].
  inversion Hne as [|? ? Hd0 Hne']; subst. cbn [length concat read_items].
  rewrite (Hd (concat ds)).
  assert (E : (negb (lenN (d ++ concat ds) =? 0) && (lenN (concat ds) =? lenN (d ++ concat ds))) = false).
  { rewrite lenN_app. assert (0 < lenN d) by (destruct d; [congruence|rewrite lenN_cons; lia]).
    apply andb_false_iff. right. apply N.eqb_neq. lia. }
  rewrite E. rewrite (IH Hne'). reflexivity.
Qed.

Lemma Forall2_concat_split (groups : list (list bytes)) :
  forall vs, Forall2 item_law (concat groups) vs ->
  exists vgroups, concat vgroups = vs /\ Forall2 (Forall2 item_law) groups vgroups.
Proof.
  induction groups as [|g groups IH]; intros vs H.
  - inversion H; subst. exists []. split; [reflexivity|constructor].
  - cbn [concat] in H. apply Forall2_app_inv_l in H as (v1 & v2 & H1 & H2 & ->).
    destruct (IH v2 H2) as (vg & Hc & Hf). exists (v1 :: vg). split; [cbn; rewrite Hc; reflexivity|].
    constructor; assumption.
Qed.

Lemma Forall2_length_eq {A B} (R : A -> B -> Prop) l1 l2 : Forall2 R l1 l2 -> length l1 = length l2.
Proof. induction 1; cbn; congruence. Qed.

Lemma Forall_concat_sub {A} (P : A -> Prop) (groups : list (list A)) :
  Forall P (concat groups) -> Forall (Forall P) groups.
Proof.
  induction groups as [|g groups IH]; intros H; [constructor|].
  cbn [concat] in H. apply Forall_app in H as [H1 H2]. constructor; [exact H1|apply IH; exact H2].
Qed.

(* a written body reads back as exactly the values, with a clean end *)
Theorem written_body_reads marker groups vs g0 :
  length marker = 16%nat ->
  Forall (fun g => g <> []) groups ->
  Forall2 item_law (concat groups) vs ->
  (Forall (fun d => d = []) (concat groups) \/ Forall (fun d => d <> []) (concat groups)) ->
  Forall (fun g => lenN g < 2 ^ 63 /\ lenN (cmp (concat g)) <= max_alloc c /\ lenN (cmp (concat g)) < 2 ^ 63) groups ->
  (length groups < g0)%nat ->
  read_blocks c cd dec_item g0 marker (wbody cmp marker groups) = (vs, Clean).
Proof.
  intros Hm Hne Hlaw Hw Hsz Hg.
  destruct (Forall2_concat_split groups vs Hlaw) as (vgroups & Hc & Hf).
  set (bl := map (fun gv : list bytes * list value => mkBlk (snd gv) (cmp (concat (fst gv)))) (combine groups vgroups)).
  assert (Hlen : length groups = length vgroups) by (eapply Forall2_length_eq; exact Hf).
  assert (Hbody : wbody cmp marker groups = body marker bl).
  { unfold wbody, body, bl. clear Hg Hsz Hw Hlaw Hc Hne Hlen.
    induction Hf as [|g vg gs vgs Hgv Hrest IH]; [reflexivity|].
    cbn [map concat combine fst snd]. rewrite IH. f_equal.
    unfold wblock, enc_blk. cbn [b_vals b_payload].
    unfold lenN. rewrite (Forall2_length_eq _ _ _ Hgv). reflexivity. }
  assert (Hvals : concat (map b_vals bl) = vs).
  { rewrite <- Hc. unfold bl. clear - Hf. induction Hf; [reflexivity|]. cbn [combine map concat b_vals snd]. rewrite IHHf. reflexivity. }
  assert (Hgood : Forall (good_blk c cd dec_item) bl).
  { unfold bl. clear Hbody Hvals Hg Hlaw Hc Hlen.
    assert (Hw' : Forall (fun g => Forall (fun d => d = []) g \/ Forall (fun d => d <> []) g) groups).
    { destruct Hw as [Hw|Hw]; apply Forall_concat_sub in Hw;
        (eapply Forall_impl; [|exact Hw]); cbn; intros; [left|right]; assumption. }
    clear Hw. induction Hf as [|g vg gs vgs Hgv Hrest IH]; [constructor|].
    inversion Hne; subst. inversion Hsz as [|? ? (S1 & S2 & S3) Hsz']; subst. inversion Hw' as [|? ? Hwg Hw'']; subst.
    cbn [combine map fst snd]. constructor; [|apply IH; assumption].
    unfold good_blk. cbn [b_vals b_payload].
    assert (Hl := Forall2_length_eq _ _ _ Hgv).
    repeat split.
    - intros ->. destruct g; [congruence|discriminate].
    - unfold lenN in *. rewrite <- Hl. exact S1.
    - exact S2.
    - exact S3.
    - exists (concat g). split; [apply decomp_comp|].
      rewrite <- Hl. destruct Hwg as [Hwg|Hwg]; [apply read_items_empty|apply read_items_concat]; assumption. }
  rewrite Hbody, <- Hvals. apply read_whole; try assumption.
  unfold bl. rewrite map_length, combine_length. lia.
Qed.
End Refinement.

(* ---- the iterator: values, then at most one error, then nothing for ever ---- *)
Lemma rtake_errored : forall n vs e, rtake n (mkRI vs e true) = repeat None n.
Proof. induction n as [|n IH]; intros vs e; [reflexivity|]. cbn [rtake rnext ri_errored repeat]. rewrite IH. reflexivity. Qed.

Lemma rtake_clean_end : forall n, rtake n (mkRI [] Clean false) = repeat None n.
Proof. induction n as [|n IH]; [reflexivity|]. cbn [rtake rnext ri_errored ri_pending ri_end repeat]. rewrite IH. reflexivity. Qed.

Theorem iterator_latches : forall vs e n,
  rtake (length vs + S n) (mkRI vs e false) =
  map (fun v => Some (RValue v)) vs ++
  match e with Clean => repeat None (S n) | Failed => Some RError :: repeat None n end.
Proof.
  induction vs as [|v vs IH]; intros e n.
  - cbn [length Nat.add map app]. destruct e.
    + apply rtake_clean_end.
    + cbn [rtake rnext ri_errored ri_pending ri_end]. rewrite rtake_errored. reflexivity.
  - cbn [length Nat.add rtake rnext ri_errored ri_pending map app]. cbn [ri_end]. rewrite IH. reflexivity.
Qed.
