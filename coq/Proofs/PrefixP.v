(* Truncation: a strict prefix of the encoding of a conforming value never decodes - it is an
   error, never a value (C06 "a truncated datum is reported as an error", C14 header cuts). *)
From AvroV Require Import Base Varint Schema Bytes Names Codec Conforms VarintP BytesP CodecP ContainerP.
From Coq Require Import ZifyN ZifyBool ZifyNat.
Open Scope N_scope.

Lemma dec_long_nil : dec_long [] = LEof.
Proof. reflexivity. Qed.

Lemma dec_seq_len_prefix c z k : (k < length (enc_long z))%nat -> dec_seq_len c (firstn k (enc_long z)) = Err.
Proof. intros H. unfold dec_seq_len. rewrite long_prefix_eof by exact H. reflexivity. Qed.

Lemma dec_len_prefix c z k : (k < length (enc_long z))%nat -> dec_len c (firstn k (enc_long z)) = Err.
Proof. intros H. unfold dec_len. rewrite long_prefix_eof by exact H. reflexivity. Qed.

Lemma lenN_length {A} (l : list A) : lenN l = N.of_nat (length l).
Proof. reflexivity. Qed.

(* length-prefixed bytes: any strict prefix fails *)
Lemma dec_bytes_prefix c b k : len_ok c (lenN b) = true -> (k < length (enc_bytes b))%nat ->
  dec_bytes c (firstn k (enc_bytes b)) = Err.
Proof.
  intros Hl Hk. unfold enc_bytes in *. unfold dec_bytes.
  destruct (le_lt_dec (length (enc_long (Z.of_N (lenN b)))) k) as [Hge|Hlt].
  - rewrite firstn_app_ge by exact Hge. rewrite dec_len_ok by exact Hl. cbn [bind].
    rewrite take_short; [reflexivity|]. rewrite app_length in Hk.
    remember (length (enc_long (Z.of_N (lenN b)))) as hl. unfold lenN. rewrite firstn_length. lia.
  - rewrite firstn_app_le by lia. rewrite dec_len_prefix by exact Hlt. reflexivity.
Qed.

Lemma take_prefix n a k : lenN a = n -> (k < length a)%nat -> take n (firstn k a) = None.
Proof. intros Hn Hk. apply take_short. subst n. unfold lenN. rewrite firstn_length. lia. Qed.

(* ---- list helpers ---- *)
Definition elem_ok {A} (e : A -> res bytes) (d : bytes -> res (A * bytes)) (x : A) : Prop :=
  exists a, e x = Ok a /\ (forall r, d (a ++ r) = Ok (x, r)) /\
            (forall k, (k < length a)%nat -> d (firstn k a) = Err).

Lemma items_prefix {A} (e : A -> res bytes) (d : bytes -> res (A * bytes)) :
  forall l b, Forall (elem_ok e d) l -> enc_list e l = Ok b ->
  forall k, (k < length b)%nat -> dec_items d (length l) (firstn k b) = Err.
Proof.
  induction l as [|x xs IH]; intros b Hall He k Hk.
  - cbn in He. inversion He; subst. cbn in Hk. lia.
  - inversion Hall as [|? ? (a & Ha & Hrt & Hpre) Hxs]; subst.
    cbn [enc_list] in He. rewrite Ha in He. cbn [bind] in He.
    destruct (enc_list e xs) as [b'| | |] eqn:Eb; cbn [bind] in He; try discriminate. inversion He; subst b.
    cbn [length dec_items].
    destruct (le_lt_dec (length a) k) as [Hge|Hlt].
    + rewrite firstn_app_ge by exact Hge. rewrite Hrt. cbn [bind].
      rewrite (IH b' Hxs eq_refl); [reflexivity|]. rewrite app_length in Hk. lia.
    + rewrite firstn_app_le by lia. rewrite Hpre by exact Hlt. reflexivity.
Qed.

Lemma items_full {A} (e : A -> res bytes) (d : bytes -> res (A * bytes)) :
  forall l b, Forall (elem_ok e d) l -> enc_list e l = Ok b ->
  forall rest, dec_items d (length l) (b ++ rest) = Ok (l, rest).
Proof.
  induction l as [|x xs IH]; intros b Hall He rest.
  - cbn in He. inversion He; subst. reflexivity.
  - inversion Hall as [|? ? (a & Ha & Hrt & Hpre) Hxs]; subst.
    cbn [enc_list] in He. rewrite Ha in He. cbn [bind] in He.
    destruct (enc_list e xs) as [b'| | |] eqn:Eb; cbn [bind] in He; try discriminate. inversion He; subst b.
    cbn [length dec_items]. rewrite <- app_assoc, Hrt. cbn [bind]. rewrite (IH b' Hxs eq_refl). reflexivity.
Qed.

(* an array / map body: count, items, terminator *)
Lemma blocks_prefix {A} c esize (e : A -> res bytes) (d : bytes -> res (A * bytes)) (l : list A) b g k :
  l <> [] -> count_ok c esize (lenN l) = true -> Forall (elem_ok e d) l -> enc_list e l = Ok b ->
  (2 <= g)%nat -> (k < length (enc_long (Z.of_N (lenN l)) ++ b ++ [0%N]))%nat ->
  dec_blocks c esize d g 0 (firstn k (enc_long (Z.of_N (lenN l)) ++ b ++ [0])) = Err.
Proof.
  intros Hne Hc Hall He Hg Hk. destruct g as [|[|g]]; try lia.
  unfold count_ok in Hc. apply andb_true_iff in Hc as [Hl Hs].
  assert (Hpos : 0 < lenN l) by (destruct l; [congruence|rewrite lenN_cons; lia]).
  set (H := enc_long (Z.of_N (lenN l))) in *.
  cbn [dec_blocks].
  destruct (le_lt_dec (length H) k) as [Hge|Hlt].
  2:{ rewrite firstn_app_le by lia. unfold H. rewrite dec_seq_len_prefix by exact Hlt. reflexivity. }
  rewrite firstn_app_ge by exact Hge. unfold H at 1. rewrite seq_len_pos by assumption. cbn [bind].
  assert (E0 : (lenN l =? 0) = false) by (apply N.eqb_neq; lia). rewrite E0.
  rewrite N.add_0_l, Hs. rewrite dec_count_spec. unfold lenN at 1. rewrite Nat2N.id.
  set (k1 := (k - length H)%nat).
  destruct (le_lt_dec (length b) k1) as [Hge2|Hlt2].
  - (* all items present, the terminator is cut off *)
    rewrite firstn_app_ge by exact Hge2.
    assert (Hk1 : (k1 - length b = 0)%nat) by (rewrite !app_length in Hk; cbn [length] in Hk; lia).
    rewrite Hk1. cbn [firstn]. rewrite (items_full e d l b Hall He). cbn [bind dec_blocks].
    reflexivity.
  - rewrite firstn_app_le by lia. rewrite (items_prefix e d l b Hall He) by exact Hlt2. reflexivity.
Qed.

(* ---- records ---- *)
Definition felem_ok (e : schema -> value -> res bytes) (d : schema -> bytes -> res (value * bytes))
           (s : schema) (v : value) : Prop :=
  exists a, e s v = Ok a /\ (forall r, d s (a ++ r) = Ok (v, r)) /\
            (forall k, (k < length a)%nat -> d s (firstn k a) = Err).

Lemma fields_prefix (cf : schema -> value -> bool) (e : schema -> value -> res bytes)
      (d : schema -> bytes -> res (value * bytes)) :
  (forall s v, cf s v = true -> felem_ok e d s v) ->
  forall fs l pre b,
    nodup_strs (map (fun ms : fmeta * schema => f_name (fst ms)) fs) = true ->
    conf_fields cf fs l = true ->
    enc_fields e fs (pre ++ l) = Ok b ->
    forall k, (k < length b)%nat -> dec_fields d fs (firstn k b) = Err.
Proof.
  intros Hcf. induction fs as [|[m s] fs IH]; intros [|[kk v] l] pre b Hnd Hc He k Hk; try discriminate.
  - cbn in He. inversion He; subst. cbn in Hk. lia.
  - cbn [conf_fields] in Hc. apply andb_true_iff in Hc as [Hc H3]. apply andb_true_iff in Hc as [H1 H2].
    apply bytes_eqb_eq in H1. subst kk.
    cbn [map nodup_strs fst] in Hnd. apply andb_true_iff in Hnd as [Hn1 Hn2].
    apply negb_true_iff in Hn1.
    assert (Hlast : lookup_last (f_name m) l = None) by (eapply lookup_last_none; [exact H3|exact Hn1]).
    destruct (Hcf s v H2) as (a & Ha & Hrt & Hpre).
    cbn [enc_fields] in He. rewrite (lookup_last_app _ _ _ _ Hlast), Ha in He. cbn [bind] in He.
    destruct (enc_fields e fs (pre ++ (f_name m, v) :: l)) as [b'| | |] eqn:Eb; cbn [bind] in He; try discriminate.
    inversion He; subst b.
    cbn [dec_fields].
    destruct (le_lt_dec (length a) k) as [Hge|Hlt].
    + rewrite firstn_app_ge by exact Hge. rewrite Hrt. cbn [bind].
      rewrite (IH l (pre ++ [(f_name m, v)]) b' Hn2 H3); [reflexivity| |].
      * rewrite <- app_assoc. exact Eb.
      * rewrite app_length in Hk. lia.
    + rewrite firstn_app_le by lia. rewrite Hpre by exact Hlt. reflexivity.
Qed.

Lemma firstn_nil_0 {A} (l : list A) : firstn 0 l = [].
Proof. reflexivity. Qed.

Lemma lift_long_eof f : lift_long f LEof = Err.
Proof. reflexivity. Qed.

Lemma dec_int_prefix z k : (k < length (enc_long z))%nat -> dec_int (firstn k (enc_long z)) = LEof.
Proof. intros H. unfold dec_int. rewrite long_prefix_eof by exact H. reflexivity. Qed.

(* ---------------- the theorem ---------------- *)
Theorem prefix_gen c nmz : names_ok nmz ->
  forall fe s v ee ed bs, agree ee ed s -> conforms fe c nmz ed s v = true ->
    encode fe nmz ee s v = Ok bs ->
    forall fd k, (fe <= fd)%nat -> (k < length bs)%nat -> decode fd c nmz ed s (firstn k bs) = Err.
Proof.
  intros Hok. induction fe as [|f IH]; intros s v ee ed bs Hag Hc He fd k Hfd Hk; [discriminate|].
  destruct fd as [|g]; [lia|]. assert (Hfg : (f <= g)%nat) by lia.
  (* element facts for a sub-schema, at decoder fuel g *)
  assert (Helem : forall s0 x e0 d0, agree e0 d0 s0 -> conforms f c nmz d0 s0 x = true ->
            elem_ok (encode f nmz e0 s0) (decode g c nmz d0 s0) x).
  { intros s0 x e0 d0 Hag0 Hx.
    destruct (roundtrip_gen c nmz Hok f s0 x e0 d0 Hag0 Hx) as (ea & Hea & Hrt).
    exists ea. split; [exact Hea|]. split.
    - intros r. apply Hrt. exact Hfg.
    - intros k0 Hk0. apply (IH s0 x e0 d0 ea Hag0 Hx Hea g k0 Hfg Hk0). }
  destruct s.
  28: { (* ref *)
    cbn [conforms] in Hc. cbn [agree] in Hag. cbn [encode] in He.
    rewrite (fqn_nsq n ee ed Hag) in He.
    destruct (names_get (fqn n ed) nmz) as [s'|] eqn:Hget; [|discriminate].
    cbn [decode]. rewrite Hget.
    apply (IH s' v ee (ns (fqn n ed)) bs); try assumption.
    eapply agree_ref; eassumption. }
  all: try (destruct v; cbn [conforms] in Hc; try discriminate Hc).
  all: try (destruct inner; cbn [conforms] in Hc; try discriminate Hc).
  all: try (destruct u; cbn [conforms] in Hc; try discriminate Hc).
  all: cbn [encode] in He.
  - (* null *) inversion He; subst. cbn in Hk. lia.
  - (* boolean *) inversion He; subst. cbn [length] in Hk. assert (k = 0)%nat by lia. subst. reflexivity.
  - (* int *) inversion He; subst. cbn [decode]. rewrite dec_int_prefix by exact Hk. reflexivity.
  - (* long *) inversion He; subst. cbn [decode]. rewrite long_prefix_eof by exact Hk. reflexivity.
  - (* float *) inversion He; subst. cbn [decode].
    rewrite (take_prefix 4) by (try apply (lenN_le 4); exact Hk). reflexivity.
  - (* double *) inversion He; subst. cbn [decode].
    rewrite (take_prefix 8) by (try apply (lenN_le 8); exact Hk). reflexivity.
  - (* bytes *) inversion He; subst. unfold bytes_ok in Hc. apply andb_true_iff in Hc as [_ Hlen].
    cbn [decode]. rewrite dec_bytes_prefix by assumption. reflexivity.
  - (* string *) inversion He; subst. unfold str_ok, bytes_ok in Hc. apply andb_true_iff in Hc as [Hc _].
    apply andb_true_iff in Hc as [_ Hlen].
    cbn [decode]. unfold dec_string. rewrite dec_bytes_prefix by assumption. reflexivity.
  - (* array *)
    apply andb_true_iff in Hc as [Hcnt Hall].
    destruct l as [|x xs].
    + inversion He; subst. cbn [length] in Hk. assert (k = 0)%nat by lia. subst. reflexivity.
    + cbn iota in He. set (l := x :: xs) in *. assert (Hne : l <> []) by (subst l; discriminate).
      destruct (enc_list (encode f nmz ee s) l) as [b| | |] eqn:Eb; cbn [bind] in He; try discriminate.
      assert (Hbs : bs = enc_long (Z.of_N (lenN l)) ++ b ++ [0]) by congruence. subst bs. clear He.
      destruct k as [|k']; [reflexivity|].
      cbn [decode].
      assert (Hels : Forall (elem_ok (encode f nmz ee s) (decode g c nmz ed s)) l).
      { apply Forall_forall. intros y Hy. apply Helem; [apply agree_of_nsq; exact Hag|].
        rewrite forallb_forall in Hall. apply Hall. exact Hy. }
      rewrite (blocks_prefix c (vsize c) (encode f nmz ee s) (decode g c nmz ed s) l b); try assumption; [reflexivity|].
      rewrite firstn_length. pose proof (enc_long_length_pos (Z.of_N (lenN l))).
      rewrite !app_length in Hk |- *. lia.
  - (* map *)
    rename l into m.
    apply andb_true_iff in Hc as [Hc Hall]. apply andb_true_iff in Hc as [Hcnt Hnd].
    destruct m as [|kv m'].
    + inversion He; subst. cbn [length] in Hk. assert (k = 0)%nat by lia. subst. reflexivity.
    + cbn iota in He. set (m := kv :: m') in *. assert (Hne : m <> []) by (subst m; discriminate).
      set (E := fun kv0 : str * value => do ea <- encode f nmz ee s (snd kv0); Ok (enc_bytes (fst kv0) ++ ea)) in *.
      set (D := fun b0 : bytes => do (k0, r1) <- dec_string c b0;
                                   do (x0, r2) <- decode g c nmz ed s r1; Ok ((k0, x0), r2)).
      destruct (enc_list E m) as [b| | |] eqn:Eb; cbn [bind] in He; try discriminate.
      assert (Hbs : bs = enc_long (Z.of_N (lenN m)) ++ b ++ [0]) by congruence. subst bs. clear He.
      destruct k as [|k']; [reflexivity|].
      cbn [decode]. fold D.
      assert (Hels : Forall (elem_ok E D) m).
      { apply Forall_forall. intros [kk x] Hy. rewrite forallb_forall in Hall. specialize (Hall _ Hy).
        cbn [fst snd] in Hall. apply andb_true_iff in Hall as [Hkk Hx].
        destruct (Helem s x ee ed (agree_of_nsq _ _ _ Hag) Hx) as (ea & Hea & Hrt & Hpre).
        unfold str_ok, bytes_ok in Hkk. apply andb_true_iff in Hkk as [Hkk Hutf]. apply andb_true_iff in Hkk as [_ Hkl].
        exists (enc_bytes kk ++ ea). split; [unfold E; cbn [fst snd]; rewrite Hea; reflexivity|]. split.
        - intros r. unfold D, dec_string. rewrite <- app_assoc, dec_bytes_ok by exact Hkl. cbn [bind]. rewrite Hutf.
          cbn [bind]. rewrite Hrt. reflexivity.
        - intros k0 Hk0. unfold D, dec_string.
          destruct (le_lt_dec (length (enc_bytes kk)) k0) as [Hge|Hlt].
          + rewrite firstn_app_ge by exact Hge. rewrite dec_bytes_ok by exact Hkl. cbn [bind]. rewrite Hutf. cbn [bind].
            rewrite Hpre; [reflexivity|]. rewrite app_length in Hk0. lia.
          + rewrite firstn_app_le by lia. rewrite dec_bytes_prefix by assumption. reflexivity. }
      rewrite (blocks_prefix c (kvsize c) E D m b); try assumption; [reflexivity|].
      rewrite firstn_length. pose proof (enc_long_length_pos (Z.of_N (lenN m))).
      rewrite !app_length in Hk |- *. lia.
  - (* union *)
    apply andb_true_iff in Hc as [Hi Hb]. apply N.ltb_lt in Hi.
    destruct (nth_N branches i) as [br|] eqn:Hn; [|discriminate].
    destruct (encode f nmz ee br v) as [ea| | |] eqn:Ea; cbn [bind] in He; try discriminate.
    assert (Hbs : bs = enc_long (Z.of_N i) ++ ea) by congruence. subst bs. clear He.
    cbn [decode].
    destruct (le_lt_dec (length (enc_long (Z.of_N i))) k) as [Hge|Hlt].
    + rewrite firstn_app_ge by exact Hge. rewrite long_roundtrip by (apply in_i64_spec; lia).
      assert (E1 : (Z.of_N i <? 0)%Z = false) by lia. rewrite E1, N2Z.id, Hn.
      rewrite (IH br v ee ed ea (agree_of_nsq _ _ _ Hag) Hb Ea g); [reflexivity|exact Hfg|].
      rewrite app_length in Hk. lia.
    + rewrite firstn_app_le by lia. rewrite long_prefix_eof by exact Hlt. reflexivity.
  - (* record *)
    apply andb_true_iff in Hc as [Hnd Hcf].
    cbn [decode].
    rewrite (fields_prefix (conforms f c nmz (ns (fqn n ed))) (encode f nmz (ns_or n ee))
                           (decode g c nmz (ns (fqn n ed)))) with (l := l) (pre := @nil (str * value)) (b := bs);
      try assumption; [reflexivity|].
    intros s0 v0 H0. apply Helem; [apply agree_of_nsq; exact Hag|exact H0].
  - (* enum *)
    inversion He; subst. cbn [decode]. rewrite dec_int_prefix by exact Hk. reflexivity.
  - (* fixed *)
    apply andb_true_iff in Hc as [Hc _]. apply andb_true_iff in Hc as [_ Hl]. apply N.eqb_eq in Hl.
    inversion He; subst. cbn [decode]. unfold dec_fixed. rewrite (take_prefix (fx_size f0)) by assumption. reflexivity.
  - (* decimal / bytes *)
    apply andb_true_iff in Hc as [Hc Hne]. unfold bytes_ok in Hc. apply andb_true_iff in Hc as [_ Hlen].
    assert (Hb : b <> []) by (intros ->; discriminate).
    rewrite dec_to_vec_self in He by exact Hb. inversion He; subst.
    cbn [decode]. rewrite dec_bytes_prefix by assumption. reflexivity.
  - (* decimal / fixed *)
    apply andb_true_iff in Hc as [Hc Hne]. apply andb_true_iff in Hc as [Hl _]. apply N.eqb_eq in Hl.
    assert (Hb : b <> []) by (intros ->; discriminate).
    rewrite <- Hl, sign_extend_self in He by exact Hb. inversion He; subst.
    cbn [decode]. unfold dec_fixed. rewrite (take_prefix (fx_size f0)) by assumption. reflexivity.
  - (* big decimal *)
    apply andb_true_iff in Hc as [Hc Hl2].
    inversion He; subst. cbn [decode]. unfold enc_bigdec in *. rewrite dec_bytes_prefix by assumption. reflexivity.
  - (* uuid / string *)
    apply andb_true_iff in Hc as [Hc Hlen]. apply andb_true_iff in Hc as [Hl Hall]. apply N.eqb_eq in Hl.
    destruct (uuid_text_facts b Hl Hall) as (_ & Ht & _).
    inversion He; subst. cbn [decode]. unfold dec_string.
    rewrite dec_bytes_prefix by (try (rewrite Ht; exact Hlen); assumption). reflexivity.
  - (* uuid / bytes *)
    apply andb_true_iff in Hc as [Hc Hlen]. apply andb_true_iff in Hc as [Hl _]. apply N.eqb_eq in Hl.
    inversion He; subst. cbn [decode].
    rewrite dec_bytes_prefix by (try (rewrite Hl; exact Hlen); assumption). reflexivity.
  - (* uuid / fixed *)
    apply andb_true_iff in Hc as [Hc Hsz]. apply andb_true_iff in Hc as [Hl _]. apply N.eqb_eq in Hl.
    rewrite Hsz in He. inversion He; subst. apply N.eqb_eq in Hsz.
    cbn [decode]. unfold dec_fixed. rewrite (take_prefix (fx_size f0)) by (try (rewrite Hsz; exact Hl); assumption). reflexivity.
  - inversion He; subst. cbn [decode]. rewrite dec_int_prefix by exact Hk. reflexivity.
  - inversion He; subst. cbn [decode]. rewrite dec_int_prefix by exact Hk. reflexivity.
  - inversion He; subst. cbn [decode]. rewrite long_prefix_eof by exact Hk. reflexivity.
  - inversion He; subst. cbn [decode]. rewrite long_prefix_eof by exact Hk. reflexivity.
  - inversion He; subst. cbn [decode]. rewrite long_prefix_eof by exact Hk. reflexivity.
  - inversion He; subst. cbn [decode]. rewrite long_prefix_eof by exact Hk. reflexivity.
  - inversion He; subst. cbn [decode]. rewrite long_prefix_eof by exact Hk. reflexivity.
  - inversion He; subst. cbn [decode]. rewrite long_prefix_eof by exact Hk. reflexivity.
  - inversion He; subst. cbn [decode]. rewrite long_prefix_eof by exact Hk. reflexivity.
  - (* duration *)
    apply andb_true_iff in Hc as [Hc H3]. apply andb_true_iff in Hc as [Hc H2].
    apply andb_true_iff in Hc as [Hsz H1].
    assert (Hbs : bs = le_bytes 4 months ++ le_bytes 4 days ++ le_bytes 4 millis) by congruence.
    subst bs. clear He. cbn [decode]. rewrite Hsz.
    rewrite !app_length, !le_bytes_length in Hk.
    destruct (le_lt_dec 4 k) as [G1|G1].
    2:{ rewrite firstn_app_le by (rewrite le_bytes_length; lia).
        rewrite (take_prefix 4) by (try apply (lenN_le 4); rewrite ?le_bytes_length; lia). reflexivity. }
    rewrite firstn_app_ge by (rewrite le_bytes_length; lia). rewrite le_bytes_length.
    rewrite (take_app_n 4) by (apply (lenN_le 4)).
    destruct (le_lt_dec 8 k) as [G2|G2].
    2:{ rewrite firstn_app_le by (rewrite le_bytes_length; lia).
        rewrite (take_prefix 4) by (try apply (lenN_le 4); rewrite ?le_bytes_length; lia). reflexivity. }
    rewrite firstn_app_ge by (rewrite le_bytes_length; lia). rewrite le_bytes_length.
    rewrite (take_app_n 4) by (apply (lenN_le 4)).
    rewrite (take_prefix 4) by (try apply (lenN_le 4); rewrite ?le_bytes_length; lia). reflexivity.
Qed.
