(* Lemmas about the parser model (C10, C11). *)
From AvroV Require Import Base Varint Schema Bytes Names Floats Codec Conforms Validate SingleObject Resolve Lit SchemaJson Parser BytesP.
From Coq Require Import String ZifyN ZifyBool ZifyNat.
Open Scope N_scope.

(* ---- names ---- *)
Definition valid_name (n : name) : Prop :=
  is_ident (nm n) = true /\
  match ns n with None => True | Some x => is_namespace x = true /\ x <> [] end.

Lemma split_last_dot_none_app p q :
  split_last_dot q = None -> split_last_dot (p ++ 46 :: q) = Some (p, q).
Proof.
  intros Hq. induction p as [|c p IH]; cbn [app split_last_dot].
  - rewrite Hq. reflexivity.
  - rewrite IH. reflexivity.
Qed.

Lemma no_dot_split s : forallb (fun c => negb (c =? 46)) s = true -> split_last_dot s = None.
Proof.
  induction s as [|c r IH]; cbn [forallb split_last_dot]; [reflexivity|].
  intros H. apply andb_prop in H. destruct H as [H1 H2]. rewrite (IH H2).
  destruct (c =? 46); [discriminate H1|reflexivity].
Qed.

Lemma alnum_no_dot c : is_alnum_ c = true -> negb (c =? 46) = true.
Proof. unfold is_alnum_, is_alpha_. intros H. destruct (c =? 46) eqn:E; [|reflexivity]. apply N.eqb_eq in E. subst c. discriminate H. Qed.

Lemma ident_no_dot s : is_ident s = true -> split_last_dot s = None.
Proof.
  intros H. apply no_dot_split. destruct s as [|c r]; [discriminate H|].
  cbn [is_ident] in H. apply andb_prop in H. destruct H as [H1 H2].
  cbn [forallb]. apply andb_true_intro. split.
  - apply alnum_no_dot. unfold is_alnum_. rewrite H1. reflexivity.
  - apply forallb_forall. intros x Hx. apply alnum_no_dot. rewrite forallb_forall in H2. apply H2. exact Hx.
Qed.

(* the full name of a valid name parses back to that name (Name::new on Name::fullname) *)
Lemma name_roundtrip n : valid_name n -> name_new (fullname n) None = Ok n.
Proof.
  intros [Hi Hn]. destruct n as [nsp simple]. cbn [nm ns] in Hi, Hn. unfold fullname. cbn [nm ns].
  destruct nsp as [x|].
  - destruct Hn as [Hx Hne]. unfold name_new, name_start.
    change (K ".") with [46]. change ([46] ++ simple) with (46 :: simple).
    pose proof (split_last_dot_none_app x simple (ident_no_dot simple Hi)) as Hs.
    rewrite Hs, Hx, Hi. cbn [andb].
    assert (E0 : (lenN x + 1 =? 0) = false) by (unfold lenN; lia). rewrite E0.
    assert (E1 : (lenN x + 1 =? 1) = false).
    { destruct x as [|c x']; [contradiction Hne; reflexivity|]. unfold lenN. cbn [List.length]. lia. }
    rewrite E1. reflexivity.
  - unfold name_new, name_start. rewrite (ident_no_dot simple Hi), Hi. cbn. reflexivity.
Qed.

Lemma split_last_dot_parts s p q : split_last_dot s = Some (p, q) -> s = p ++ 46 :: q.
Proof.
  revert p q. induction s as [|c r IH]; intros p q H; cbn [split_last_dot] in H; [discriminate H|].
  destruct (split_last_dot r) as [[p' q']|] eqn:E.
  - injection H as <- <-. rewrite (IH p' q' eq_refl). reflexivity.
  - destruct (c =? 46) eqn:Ec; [|discriminate H]. injection H as <- <-. apply N.eqb_eq in Ec. subst c. reflexivity.
Qed.

(* every name the parser builds matches the grammar *)
Lemma name_new_valid s ens n : name_new s ens = Ok n -> valid_name n.
Proof.
  unfold name_new, name_start. intros H.
  destruct (split_last_dot s) as [[p q]|] eqn:Es.
  - destruct (is_namespace p && is_ident q) eqn:Ev; [|discriminate H].
    apply andb_prop in Ev. destruct Ev as [Hp Hq].
    assert (E0 : (lenN p + 1 =? 0) = false) by (unfold lenN; lia). rewrite E0 in H.
    destruct (lenN p + 1 =? 1) eqn:E1.
    + injection H as <-. split; cbn [nm ns]; [|exact I].
      assert (p = []) by (destruct p; [reflexivity|unfold lenN in E1; cbn [List.length] in E1; lia]). subst p.
      pose proof (split_last_dot_parts _ _ _ Es) as ->. cbn [app skipn]. exact Hq.
    + injection H as <-. split; cbn [nm ns]; [exact Hq|]. split; [exact Hp|].
      intros ->. unfold lenN in E1. cbn in E1. discriminate E1.
  - destruct (is_ident s) eqn:Hi; [|discriminate H]. rewrite N.eqb_refl in H.
    destruct ens as [[|c e]|].
    + injection H as <-. split; [exact Hi|exact I].
    + destruct (is_namespace (c :: e)) eqn:He; [|discriminate H]. injection H as <-.
      split; cbn [nm ns]; [exact Hi|]. split; [exact He|discriminate].
    + injection H as <-. split; [exact Hi|exact I].
Qed.

Lemma name_parse_valid m ens n : name_parse m ens = Ok n -> valid_name n.
Proof. unfold name_parse. destruct (jstring (K "name") m); [|discriminate]. apply name_new_valid. Qed.

(* ---- unions ---- *)
(* what UnionSchemaBuilder::variant enforces, read off union_check *)
Lemma union_check_sound : forall l sn sk,
  union_check l sn sk = true ->
  (forall b, In b l -> schema_name b = None -> kind_eqb (base_kind b) KUnion = false) /\
  (forall b n, In b l -> schema_name b = Some n -> existsb (name_eqb n) sn = false) /\
  (forall b, In b l -> schema_name b = None -> existsb (kind_eqb (base_kind b)) sk = false).
Proof.
  induction l as [|b r IH]; intros sn sk H; [repeat split; intros; match goal with Hx : In _ [] |- _ => destruct Hx end|].
  cbn [union_check] in H. destruct (schema_name b) as [n|] eqn:En.
  - destruct (existsb (name_eqb n) sn) eqn:E1; cbn iota in H; [discriminate H|].
    destruct (IH _ _ H) as (A & B & C). repeat split.
    + intros b' [<-|Hin] Hn; [rewrite En in Hn; discriminate Hn|apply A; assumption].
    + intros b' n' [<-|Hin] Hn.
      * rewrite En in Hn. injection Hn as <-. exact E1.
      * specialize (B b' n' Hin Hn). cbn [existsb] in B. apply orb_false_iff in B. apply B.
    + intros b' [<-|Hin] Hn; [rewrite En in Hn; discriminate Hn|apply C; assumption].
  - destruct (kind_eqb (base_kind b) KUnion) eqn:Eu; cbn iota in H; [discriminate H|].
    destruct (existsb (kind_eqb (base_kind b)) sk) eqn:E1; cbn iota in H; [discriminate H|].
    destruct (IH _ _ H) as (A & B & C). repeat split.
    + intros b' [<-|Hin] Hn; [exact Eu|apply A; assumption].
    + intros b' n' [<-|Hin] Hn; [rewrite En in Hn; discriminate Hn|apply (B b' n' Hin Hn)].
    + intros b' [<-|Hin] Hn; [exact E1|].
      specialize (C b' Hin Hn). cbn [existsb] in C. apply orb_false_iff in C. apply C.
Qed.

(* no two branches share a name, no two unnamed branches share a base kind *)
Lemma union_check_distinct : forall l sn sk,
  union_check l sn sk = true ->
  forall i j bi bj, (i < j)%nat -> nth_error l i = Some bi -> nth_error l j = Some bj ->
    match schema_name bi, schema_name bj with
    | Some a, Some b => name_eqb b a = false
    | None, None => kind_eqb (base_kind bj) (base_kind bi) = false
    | _, _ => True
    end.
Proof.
  induction l as [|b r IH]; intros sn sk H i j bi bj Hij Hi Hj; [destruct i; discriminate Hi|].
  cbn [union_check] in H.
  destruct i as [|i].
  - cbn in Hi. injection Hi as <-. destruct j as [|j]; [lia|]. cbn in Hj.
    apply nth_error_In in Hj.
    destruct (schema_name b) as [n|] eqn:En.
    + destruct (existsb (name_eqb n) sn); cbn iota in H; [discriminate H|].
      destruct (union_check_sound _ _ _ H) as (_ & B & _).
      destruct (schema_name bj) as [nj|] eqn:Ej; [|exact I].
      specialize (B bj nj Hj Ej). cbn [existsb] in B. apply orb_false_iff in B. apply B.
    + destruct (kind_eqb (base_kind b) KUnion); cbn iota in H; [discriminate H|].
      destruct (existsb (kind_eqb (base_kind b)) sk); cbn iota in H; [discriminate H|].
      destruct (union_check_sound _ _ _ H) as (_ & _ & C).
      destruct (schema_name bj) as [nj|] eqn:Ej; [exact I|].
      specialize (C bj Hj Ej). cbn [existsb] in C. apply orb_false_iff in C. apply C.
  - destruct j as [|j]; [lia|]. cbn in Hi, Hj.
    destruct (schema_name b) as [n|].
    + destruct (existsb (name_eqb n) sn); cbn iota in H; [discriminate H|]. eapply IH; [exact H| |exact Hi|exact Hj]. lia.
    + destruct (kind_eqb (base_kind b) KUnion); cbn iota in H; [discriminate H|].
      destruct (existsb (kind_eqb (base_kind b)) sk); cbn iota in H; [discriminate H|]. eapply IH; [exact H| |exact Hi|exact Hj]. lia.
Qed.

Lemma parse_union_rules rec st l ens s st' :
  parse_union_with rec st l ens = Ok (s, st') -> exists bs, s = SUnion bs /\ union_check bs [] [] = true.
Proof.
  unfold parse_union_with. intros H.
  destruct (parse_branches rec st l ens) as [[bs st1]| | |]; cbn [bind] in H; try discriminate H.
  destruct (union_check bs [] []) eqn:E; [|discriminate H]. injection H as <- <-. exists bs. split; [reflexivity|exact E].
Qed.

(* ---- enums and fixed ---- *)
Lemma parse_enum_rules st m ens s st' :
  parse_enum st m ens = Ok (s, st') -> lookup (K "symbols") m <> None ->
  exists n al doc symbols dflt a,
    s = SEnum n al doc symbols dflt a /\ valid_name n /\
    forallb is_ident symbols = true /\ nodup_strs' symbols = true /\
    match dflt with Some d => existsb (bytes_eqb d) symbols = true | None => True end.
Proof.
  unfold parse_enum. intros H Hs.
  destruct (lookup (K "symbols") m) as [sy|]; [|contradiction Hs; reflexivity].
  destruct (name_parse m ens) as [n| | |] eqn:En; cbn [bind] in H; try discriminate H.
  destruct (fix_aliases (j_aliases_of m) (ns n)) as [al| | |]; cbn [bind] in H; try discriminate H.
  destruct sy; try discriminate H.
  destruct (all_strings l) as [symbols|]; [|discriminate H].
  destruct (forallb is_ident symbols && nodup_strs' symbols) eqn:Ev; [|discriminate H].
  apply andb_prop in Ev. destruct Ev as [E1 E2].
  pose proof (name_parse_valid _ _ _ En) as Hn.
  destruct (lookup (K "default") m) as [d|].
  - destruct d; try discriminate H.
    destruct (existsb (bytes_eqb s0) symbols) eqn:Ed; [|discriminate H]. injection H as <- <-.
    do 6 eexists. repeat split; try reflexivity; try eassumption; apply Hn.
  - injection H as <- <-. do 6 eexists. repeat split; try reflexivity; try eassumption; try exact I; apply Hn.
Qed.

Lemma parse_fixed_rules st m ens s st' :
  parse_fixed st m ens = Ok (s, st') -> lookup (K "size") m <> None ->
  exists f, s = SFixed f /\ valid_name (fx_name f) /\ fx_size f < 2 ^ 64.
Proof.
  unfold parse_fixed. intros H Hs.
  destruct (lookup (K "size") m) as [sz|]; [|contradiction Hs; reflexivity].
  destruct sz; try discriminate H.
  destruct ((0 <=? z)%Z && (z <? 2 ^ 64)%Z) eqn:Ez; [|discriminate H].
  destruct (name_parse m ens) as [n| | |] eqn:En; cbn [bind] in H; try discriminate H.
  destruct (fix_aliases (j_aliases_of m) (ns n)) as [al| | |]; cbn [bind] in H; try discriminate H.
  injection H as <- <-. eexists. split; [reflexivity|]. cbn [fx_name fx_size]. split; [exact (name_parse_valid _ _ _ En)|lia].
Qed.

(* ---- records ---- *)
Lemma fields_dup_false_nodup : forall fs seen,
  fields_dup fs seen = false ->
  NoDup (map (fun ms : fmeta * schema => f_name (fst ms)) fs) /\
  forall ms, In ms fs -> existsb (bytes_eqb (f_name (fst ms))) seen = false.
Proof.
  induction fs as [|[m s] r IH]; intros seen H; [split; [constructor|intros ? []]|].
  cbn [fields_dup] in H. destruct (existsb (bytes_eqb (f_name m)) seen) eqn:E; [discriminate H|].
  destruct (IH _ H) as [Hnd Hall]. split.
  - cbn [map fst]. constructor; [|exact Hnd].
    intros Hin. apply in_map_iff in Hin. destruct Hin as (ms & Heq & Hms).
    specialize (Hall ms Hms). rewrite existsb_app in Hall. apply orb_false_iff in Hall. destruct Hall as [_ Hall].
    cbn [existsb] in Hall. apply orb_false_iff in Hall. destruct Hall as [Hall _].
    rewrite Heq, bytes_eqb_refl in Hall. discriminate Hall.
  - intros ms [<-|Hin]; [exact E|].
    specialize (Hall ms Hin). rewrite existsb_app in Hall. apply orb_false_iff in Hall. destruct Hall as [_ Hall].
    cbn [existsb] in Hall. apply orb_false_iff in Hall. apply Hall.
Qed.

Lemma parse_fields_idents rec fuel : forall l st rns fs st',
  parse_fields rec fuel st l rns = Ok (fs, st') -> forallb (fun ms : fmeta * schema => is_ident (f_name (fst ms))) fs = true.
Proof.
  induction l as [|j r IH]; intros st rns fs st' H; cbn [parse_fields] in H; [injection H as <- <-; reflexivity|].
  destruct j; try (eapply IH; exact H).
  destruct (jstring (K "name") l) as [fname|]; [|discriminate H].
  destruct (is_ident fname) eqn:Ei; [|discriminate H].
  destruct (lookup (K "type") l) as [ty|]; [|discriminate H].
  destruct (rec st ty rns) as [[fsch st1]| | |]; cbn [bind] in H; try discriminate H.
  destruct (default_ok fuel (p_parsed st1) fsch (lookup (K "default") l)) as [[]| | |]; cbn [bind] in H; try discriminate H.
  destruct (parse_fields rec fuel st1 r rns) as [[more st2]| | |] eqn:Er; cbn [bind] in H; try discriminate H.
  injection H as <- <-. cbn [forallb fst f_name]. rewrite Ei. cbn [andb]. eapply IH; exact Er.
Qed.

Lemma parse_record_rules rec fuel st m ens s st' :
  parse_record_with rec fuel st m ens = Ok (s, st') -> lookup (K "fields") m <> None ->
  exists n al doc fs a,
    s = SRecord n al doc fs a /\ valid_name n /\
    NoDup (map (fun ms : fmeta * schema => f_name (fst ms)) fs) /\
    forallb (fun ms : fmeta * schema => is_ident (f_name (fst ms))) fs = true.
Proof.
  unfold parse_record_with. intros H Hf.
  destruct (lookup (K "fields") m) as [fo|]; [|contradiction Hf; reflexivity].
  destruct (name_parse m ens) as [n| | |] eqn:En; cbn [bind] in H; try discriminate H.
  destruct (fix_aliases (j_aliases_of m) (ns n)) as [al| | |]; cbn [bind] in H; try discriminate H.
  destruct fo; try discriminate H.
  destruct (parse_fields rec fuel (register_resolving st n al) l (ns n)) as [[fs st2]| | |] eqn:Ef; cbn [bind] in H; try discriminate H.
  destruct (fields_dup fs []) eqn:Ed; [discriminate H|]. injection H as <- <-.
  do 5 eexists. split; [reflexivity|]. split; [exact (name_parse_valid _ _ _ En)|].
  split; [exact (proj1 (fields_dup_false_nodup _ _ Ed))|exact (parse_fields_idents _ _ _ _ _ _ _ Ef)].
Qed.

(* a field default is checked by resolving it against the field's schema *)
Lemma default_ok_resolves fuel parsed s j :
  (forall bs, s <> SUnion bs) -> default_ok fuel parsed s (Some j) = Ok tt ->
  exists v v', json_to_value fuel j = Ok v /\ resolve fuel default_cfg parsed (schema_ns s) s v = Ok v'.
Proof.
  intros Hnu H. unfold default_ok in H.
  destruct (json_to_value fuel j) as [v| | |]; cbn [bind] in H; try discriminate H.
  assert (G : match resolve fuel default_cfg parsed (schema_ns s) s v with
              | Ok _ => Ok tt | Err => Err | Panic => Panic | OutOfFuel => OutOfFuel end = Ok tt).
  { destruct s; try exact H. exfalso. apply (Hnu branches). reflexivity. }
  destruct (resolve fuel default_cfg parsed (schema_ns s) s v) as [v'| | |] eqn:E; try discriminate G.
  exists v, v'. split; [reflexivity|exact E].
Qed.
