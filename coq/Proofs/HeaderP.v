(* A container file cut inside its header cannot be opened (C14). *)
From AvroV Require Import Base Varint Schema Bytes Names Codec Conforms Container.
From AvroV Require Import VarintP BytesP CodecP PrefixP ContainerP.
From Coq Require Import ZifyN ZifyBool ZifyNat.
Open Scope N_scope.

Lemma names_ok_nil : names_ok [].
Proof. intros k s H. discriminate H. Qed.

Theorem header_cut (c : cfg) (l : list (str * value)) (mbytes marker : bytes) (k : nat) :
  encode 2 [] None (SMap SBytes []) (VMap l) = Ok mbytes ->
  conforms 2 c [] None (SMap SBytes []) (VMap l) = true ->
  lenN marker = 16 ->
  (k < length (magic ++ mbytes ++ marker))%nat ->
  ropen c (firstn k (magic ++ mbytes ++ marker)) = Err.
Proof.
  intros He Hc Hm Hk. unfold ropen.
  destruct (Nat.lt_ge_cases k 4) as [H4|H4].
  - (* inside the magic *)
    rewrite take_short; [reflexivity|].
    unfold lenN. rewrite firstn_length. rewrite app_length. cbn [magic length]. lia.
  - rewrite firstn_app. change (length magic) with 4%nat.
    rewrite (firstn_all2 magic) by (cbn; lia).
    rewrite (take_app_n 4 magic _ eq_refl). change (bytes_eqb magic magic) with true. cbn iota.
    set (j := (k - 4)%nat).
    assert (Hj : (j < length (mbytes ++ marker))%nat).
    { rewrite !app_length in Hk. cbn [magic length] in Hk. rewrite app_length. unfold j. lia. }
    assert (Hag : agree None None (SMap SBytes [])) by (apply agree_of_nsq; reflexivity).
    destruct (Nat.lt_ge_cases j (length mbytes)) as [Hjm|Hjm].
    + (* inside the metadata map *)
      rewrite firstn_app. replace (j - length mbytes)%nat with 0%nat by lia. rewrite firstn_O, app_nil_r.
      rewrite (prefix_gen c [] names_ok_nil 2 (SMap SBytes []) (VMap l) None None mbytes Hag Hc He 2 j (le_n 2) Hjm).
      reflexivity.
    + (* inside the marker *)
      rewrite firstn_app. rewrite (firstn_all2 mbytes) by lia.
      destruct (roundtrip_gen c [] names_ok_nil 2 (SMap SBytes []) (VMap l) None None Hag Hc) as (bs' & Hb' & Hrt).
      assert (bs' = mbytes) by congruence. subst bs'.
      rewrite (Hrt 2%nat (firstn (j - length mbytes) marker) (le_n 2)). cbn [bind].
      rewrite take_short; [reflexivity|].
      unfold lenN in *. rewrite firstn_length. rewrite app_length in Hj. lia.
Qed.

(* the metadata map the writer emits is the datum encoding of the map of its entries *)
Definition meta_value (entries : list (str * bytes)) : value :=
  VMap (map (fun kv => (fst kv, VBytes (snd kv))) entries).

Definition meta_item (kv : str * value) : res bytes :=
  do a <- encode 1 [] None SBytes (snd kv); Ok (enc_bytes (fst kv) ++ a).
Lemma meta_item_bytes k v : meta_item (k, VBytes v) = Ok (enc_bytes k ++ enc_bytes v).
Proof. reflexivity. Qed.

Lemma enc_list_meta (entries : list (str * bytes)) :
  enc_list meta_item (map (fun kv => (fst kv, VBytes (snd kv))) entries)
  = Ok (concat (map (fun kv => enc_bytes (fst kv) ++ enc_bytes (snd kv)) entries)).
Proof.
  induction entries as [|[k v] r IH]; cbn [map enc_list concat fst snd]; [reflexivity|].
  rewrite meta_item_bytes. cbn [bind]. rewrite IH. cbn [bind]. reflexivity.
Qed.

Lemma enc_meta_map_is_encode (entries : list (str * bytes)) :
  encode 2 [] None (SMap SBytes []) (meta_value entries) = Ok (enc_meta_map entries).
Proof.
  unfold meta_value, enc_meta_map. destruct entries as [|e r]; [reflexivity|].
  change (encode 2 [] None (SMap SBytes []) (VMap (map (fun kv : str * bytes => (fst kv, VBytes (snd kv))) (e :: r))))
    with (do b <- enc_list meta_item (map (fun kv : str * bytes => (fst kv, VBytes (snd kv))) (e :: r));
          Ok (enc_long (Z.of_N (lenN (map (fun kv : str * bytes => (fst kv, VBytes (snd kv))) (e :: r)))) ++ b ++ [0])).
  rewrite enc_list_meta. cbn [bind]. unfold lenN. rewrite map_length. reflexivity.
Qed.

(* the file header the writer emits, cut anywhere, cannot be opened *)
Theorem written_header_cut (c : cfg) order fixed st (k : nat) :
  conforms 2 c [] None (SMap SBytes []) (meta_value (order (fixed ++ w_meta st))) = true ->
  lenN (w_marker st) = 16 ->
  (k < length (header_bytes order fixed st))%nat ->
  ropen c (firstn k (header_bytes order fixed st)) = Err.
Proof.
  intros Hc Hm Hk. unfold header_bytes in *.
  exact (header_cut c _ _ _ k (enc_meta_map_is_encode _) Hc Hm Hk).
Qed.
