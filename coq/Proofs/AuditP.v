(* The strict block auditor (Spec/BlockAudit.v) accepts every specification-legal encoding: whatever
   the partition into blocks, a block with a negative count passes because the specification makes
   its announced size the byte length of its items. *)
From AvroV Require Import Base Varint Schema Bytes Names Codec Conforms BinEnc BlockAudit.
From AvroV Require Import VarintP BytesP CodecP SpecP.
From Coq Require Import ZifyN ZifyBool ZifyNat.
Open Scope N_scope.
Ltac Zify.zify_post_hook ::= Z.div_mod_to_equations.

Lemma items_audit {A} (elem : A -> bytes -> Prop) (item : bytes -> res bytes) :
  forall l b, items elem l b ->
    (forall x a, In x l -> elem x a -> forall r, item (a ++ r) = Ok r) ->
    forall rest, audit_items item (lenN l) (b ++ rest) = Ok rest.
Proof.
  intros l b Hi Hd rest. unfold audit_items. rewrite dec_count_spec. unfold lenN. rewrite Nat2N.id.
  assert (K : dec_items (fun b0 : bytes => do r <- item b0; Ok (tt, r)) (length l) (b ++ rest)
              = Ok (repeat tt (length l), rest)).
  { clear -Hi Hd. revert rest. induction Hi as [|x xs a b Hx Hxs IH]; intros rest; [reflexivity|].
    cbn [length dec_items repeat]. rewrite <- app_assoc, (Hd x a (or_introl eq_refl) Hx). cbn [bind].
    rewrite IH; [reflexivity|]. intros y a0 Hy. apply Hd. right. exact Hy. }
  rewrite K. reflexivity.
Qed.

Lemma blocks_audit {A} (elem : A -> bytes -> Prop) (item : bytes -> res bytes) :
  forall l bs, blocks elem l bs ->
    (forall x a, In x l -> elem x a -> forall r, item (a ++ r) = Ok r) ->
    forall g rest, (length bs < g)%nat -> audit_blocks item g (bs ++ rest) = Ok rest.
Proof.
  induction 1 as [|xs ys cb xb rb Hne Hc Hi Hb IH|xs ys cb sb xb rb Hne Hc Hs Hi Hb IH];
    intros Hd g rest Hg.
  - destruct g; [cbn in Hg; lia|]. reflexivity.
  - destruct g; [lia|]. apply slong_is_enc in Hc as [-> Hci].
    assert (Hpos : 0 < lenN xs) by (destruct xs; [congruence|rewrite lenN_cons; lia]).
    cbn [audit_blocks]. rewrite <- !app_assoc. rewrite long_roundtrip by exact Hci.
    assert (E0 : (Z.of_N (lenN xs) =? 0)%Z = false) by lia.
    assert (E1 : (Z.of_N (lenN xs) <? 0)%Z = false) by lia. rewrite E0, E1, N2Z.id.
    rewrite (items_audit elem item xs xb Hi); [|intros y a0 Hy; apply Hd; apply in_or_app; left; exact Hy].
    cbn [bind]. apply IH.
    + intros y a0 Hy. apply Hd. apply in_or_app. right. exact Hy.
    + rewrite !app_length in Hg. pose proof (enc_long_length_pos (Z.of_N (lenN xs))). lia.
  - destruct g; [lia|]. apply slong_is_enc in Hc as [-> Hci]. apply slong_is_enc in Hs as [-> Hsi].
    assert (Hpos : 0 < lenN xs) by (destruct xs; [congruence|rewrite lenN_cons; lia]).
    cbn [audit_blocks]. rewrite <- !app_assoc. rewrite long_roundtrip by exact Hci.
    assert (E0 : (- Z.of_N (lenN xs) =? 0)%Z = false) by lia.
    assert (E1 : (- Z.of_N (lenN xs) <? 0)%Z = true) by lia. rewrite E0, E1.
    rewrite long_roundtrip by exact Hsi.
    assert (E2 : (Z.of_N (lenN xb) <? 0)%Z = false) by lia. rewrite E2, N2Z.id.
    rewrite (take_app_n (lenN xb) xb) by reflexivity.
    replace (Z.to_N (- - Z.of_N (lenN xs))) with (lenN xs) by lia.
    rewrite <- (app_nil_r xb) at 1.
    rewrite (items_audit elem item xs xb Hi); [|intros y a0 Hy; apply Hd; apply in_or_app; left; exact Hy].
    cbn [bind]. apply IH.
    + intros y a0 Hy. apply Hd. apply in_or_app. right. exact Hy.
    + rewrite !app_length in Hg. pose proof (enc_long_length_pos (- Z.of_N (lenN xs))). lia.
Qed.

Lemma sfields_audit (elem : schema -> value -> bytes -> Prop) (cf : schema -> value -> bool)
      (a : schema -> bytes -> res bytes) :
  (forall s v b, elem s v b -> cf s v = true -> forall r, a s (b ++ r) = Ok r) ->
  forall fs l b, sfields elem fs l b -> conf_fields cf fs l = true ->
  forall rest, audit_fields a fs (b ++ rest) = Ok rest.
Proof.
  intros Hd. induction 1 as [|m s fs v l a0 b Hx Hxs IH]; intros Hc rest; [reflexivity|].
  cbn [conf_fields] in Hc. apply andb_true_iff in Hc as [Hc H3]. apply andb_true_iff in Hc as [_ H2].
  cbn [audit_fields]. rewrite <- app_assoc, (Hd s v a0 Hx H2). cbn [bind]. apply (IH H3).
Qed.

Theorem spec_audits c nmz :
  forall fd s v ed bs, spec nmz ed s v bs -> conforms fd c nmz ed s v = true ->
    forall rest, audit fd c nmz ed s (bs ++ rest) = Ok rest.
Proof.
  induction fd as [|f IH]; intros s v ed bs Hs Hc rest; [discriminate|].
  destruct s;
    try (cbn [audit]; rewrite (spec_decodes c nmz (S f) _ v ed bs Hs Hc rest); reflexivity).
  - (* array *)
    destruct v; cbn [conforms] in Hc; try discriminate Hc. inversion Hs; subst; clear Hs.
    apply andb_true_iff in Hc as [_ Hall]. cbn [audit].
    match goal with H : blocks _ _ _ |- _ =>
      apply (blocks_audit _ (audit f c nmz ed s) l bs H) end.
    + intros x a0 Hin Hx r. apply (IH s x ed a0 Hx). rewrite forallb_forall in Hall. apply Hall. exact Hin.
    + rewrite app_length. lia.
  - (* map *)
    destruct v; cbn [conforms] in Hc; try discriminate Hc. inversion Hs; subst; clear Hs.
    apply andb_true_iff in Hc as [_ Hall]. cbn [audit].
    match goal with H : blocks _ _ _ |- _ =>
      apply (blocks_audit _ (fun b0 => do (_, r1) <- dec_string c b0; audit f c nmz ed s r1) l bs H) end.
    + intros [k x] a0 Hin (kb & xb & Hu & Hk & Hx & ->) r. cbn [fst snd] in *.
      apply sbytes_is_enc in Hk as [-> _].
      rewrite forallb_forall in Hall. specialize (Hall _ Hin). cbn [fst snd] in Hall.
      apply andb_true_iff in Hall as [Hko Hxo]. unfold str_ok, bytes_ok in Hko.
      apply andb_true_iff in Hko as [Hko _]. apply andb_true_iff in Hko as [_ Hkl].
      unfold dec_string. rewrite <- app_assoc, dec_bytes_ok by exact Hkl. cbn [bind]. rewrite Hu. cbn [bind].
      apply (IH s x ed xb Hx Hxo).
    + rewrite app_length. lia.
  - (* union *)
    destruct v; cbn [conforms] in Hc; try discriminate Hc. inversion Hs; subst; clear Hs.
    match goal with H : slong _ _ |- _ => apply slong_is_enc in H as [-> ?] end.
    apply andb_true_iff in Hc as [Hi Hb]. apply N.ltb_lt in Hi.
    match goal with H : nth_N branches i = Some ?b |- _ => rewrite H in Hb; rename H into Hn end.
    cbn [audit]. rewrite <- app_assoc, long_roundtrip by assumption.
    assert (E1 : (Z.of_N i <? 0)%Z = false) by lia. rewrite E1, N2Z.id, Hn.
    match goal with H : spec _ _ _ _ ?xb |- _ => apply (IH _ _ _ xb H Hb) end.
  - (* record *)
    destruct v; cbn [conforms] in Hc; try discriminate Hc. inversion Hs; subst; clear Hs.
    apply andb_true_iff in Hc as [_ Hcf]. cbn [audit].
    match goal with H : sfields _ _ _ _ |- _ =>
      apply (sfields_audit (spec nmz (ns (fqn n ed))) (conforms f c nmz (ns (fqn n ed)))
               (audit f c nmz (ns (fqn n ed))) (fun s0 v0 a0 Hx0 Hc0 r0 => IH s0 v0 _ a0 Hx0 Hc0 r0) fields l bs H Hcf) end.
  - (* ref *)
    cbn [conforms] in Hc. inversion Hs as [| | | | | | | | | | | | | | | | | | | | | | | | | | | | | |? ? s' ? ? Hget Hsp]; subst.
    rewrite Hget in Hc. cbn [audit]. rewrite Hget. apply (IH s' v _ bs Hsp Hc).
Qed.

(* The converse of spec_audits is FALSE of the faithful model, for a reason that has nothing to do with
   blocks: the specification's variable-length integers are minimal (vint), while the implementation's
   decode_variable (avro/src/util.rs) - and therefore the model's dec_var, the decoder and this auditor -
   also accept padded ("overlong") ones such as 80 00 for zero. *)
Lemma vint_single : forall n a, vint n [a] -> a = n /\ n < 128.
Proof.
  intros n a H. remember [a] as l eqn:El. destruct H as [n Hn|n r Hge Hr].
  - injection El as ->. split; [reflexivity|exact Hn].
  - injection El as _ ->. inversion Hr.
Qed.

Lemma vint_no_padding : forall n a, vint n [a; 0] -> False.
Proof.
  intros n a H. remember [a; 0] as l eqn:El. destruct H as [n Hn|n r Hge Hr].
  - discriminate El.
  - injection El as _ ->. apply vint_single in Hr as [Hz _]. lia.
Qed.

Lemma spec_long_no_padding nmz ens v a : ~ spec nmz ens SLong v [a; 0].
Proof.
  intros Hs. remember SLong as s eqn:Es. remember [a; 0] as bs eqn:Eb.
  destruct Hs; try discriminate Es.
  match goal with H : slong _ _ |- _ => destruct H as [_ Hv] end. subst. exact (vint_no_padding _ _ Hv).
Qed.
