(* Round trip of the datum codec: decode (encode v ++ rest) = (v, rest) for conforming values. *)
From AvroV Require Import Base Varint Schema Bytes Names Codec Conforms VarintP BytesP.
From Coq Require Import ZifyN ZifyBool ZifyNat.
Open Scope N_scope.
Ltac Zify.zify_post_hook ::= Z.div_mod_to_equations.

Lemma bind_ok {A B} (r : res A) (k : A -> res B) b :
  bind r k = Ok b -> exists a, r = Ok a /\ k a = Ok b.
Proof. destruct r; cbn; intros H; try discriminate. eauto. Qed.

(* ---------------- names and namespaces ---------------- *)

Definition nsq (o : option str) : option str :=
  match o with Some [] => None | x => x end.

Lemma fqn_nsq n e1 e2 : nsq e1 = nsq e2 -> fqn n e1 = fqn n e2.
Proof.
  unfold fqn, nsq. destruct (ns n); [reflexivity|].
  destruct e1 as [[|a l]|], e2 as [[|b m]|]; intros H; try reflexivity; try discriminate;
    inversion H; reflexivity.
Qed.

Lemma name_eqb_eq a b : name_eqb a b = true -> a = b.
Proof.
  destruct a as [na ma], b as [nb mb]. unfold name_eqb. cbn [ns nm].
  intros H. apply andb_true_iff in H as [H1 H2]. apply bytes_eqb_eq in H2. subst.
  destruct na, nb; cbn in H1; try discriminate; [apply bytes_eqb_eq in H1; subst|]; reflexivity.
Qed.

Definition names_ok (nmz : names) : Prop :=
  forall k s, names_get k nmz = Some s -> named_ok k s = true.

Lemma names_okb_ok nmz : names_okb nmz = true -> names_ok nmz.
Proof.
  unfold names_ok. induction nmz as [|[k' s'] r IH]; cbn [names_okb forallb names_get fst snd];
    intros H k s G; [discriminate|].
  apply andb_true_iff in H as [H1 H2].
  destruct (name_eqb k k') eqn:E.
  - apply name_eqb_eq in E. inversion G; subst. exact H1.
  - apply IH; assumption.
Qed.

(* the two traversals use namespaces that denote the same scope for [s] *)
Definition agree (ee ed : option str) (s : schema) : Prop :=
  match s with
  | SRecord n _ _ _ _ => nsq (ns_or n ee) = nsq (ns (fqn n ed))
  | SEnum _ _ _ _ _ _ | SFixed _ | SDecimal _ _ (DFixed _) | SUuid (UFixed _) | SDuration _ => True
  | _ => nsq ee = nsq ed
  end.

Lemma record_ns_agree n ee ed : nsq ee = nsq ed -> nsq (ns_or n ee) = nsq (ns (fqn n ed)).
Proof.
  unfold ns_or, fqn. destruct (ns n) as [x|] eqn:E.
  - intros _. rewrite E. reflexivity.
  - intros H. destruct ed as [[|b m]|]; cbn [ns]; rewrite ?E; cbn [nsq] in *; exact H.
Qed.

Lemma agree_of_nsq ee ed s : nsq ee = nsq ed -> agree ee ed s.
Proof.
  intros H. destruct s; cbn [agree]; try exact H; try exact I.
  - apply record_ns_agree; exact H.
  - destruct inner; [exact H|exact I].
  - destruct u; try exact H; exact I.
Qed.

(* following a reference: the stored schema agrees under (encoder keeps ee, decoder switches to
   the namespace of the key) *)
Lemma agree_ref nmz n ee ed s' :
  names_ok nmz -> nsq ee = nsq ed -> names_get (fqn n ed) nmz = Some s' ->
  agree ee (ns (fqn n ed)) s'.
Proof.
  intros Hok Hq G. apply Hok in G. destruct s'; cbn [named_ok] in G; try discriminate; cbn [agree]; try exact I.
  - (* record *)
    rename n0 into n'. unfold ns_or.
    destruct (ns n') as [x|] eqn:E.
    + unfold fqn. rewrite E. cbn [ns]. rewrite E. reflexivity.
    + destruct (ns (fqn n ed)) as [y|] eqn:Ek; [cbn in G; discriminate|].
      unfold fqn at 1. rewrite E. cbn [ns]. rewrite E.
      (* ns (fqn n ed) = None forces n unqualified and ed empty *)
      unfold fqn in Ek. destruct (ns n) as [z|] eqn:En.
      * rewrite En in Ek. discriminate.
      * destruct ed as [[|b m]|]; cbn [ns] in Ek; try (rewrite En in Ek); try discriminate;
          cbn [nsq] in Hq; rewrite Hq; reflexivity.
  - destruct inner; [discriminate|exact I].
  - destruct u; try discriminate; exact I.
Qed.

(* ---------------- list helpers ---------------- *)

Lemma items_rt {A} (P : A -> bool) (e : A -> res bytes) (d : bytes -> res (A * bytes)) :
  forall l,
    (forall x, In x l -> P x = true -> exists a, e x = Ok a /\ forall r, d (a ++ r) = Ok (x, r)) ->
    forallb P l = true ->
    exists b, enc_list e l = Ok b /\ forall rest, dec_items d (length l) (b ++ rest) = Ok (l, rest).
Proof.
  induction l as [|x xs IH]; intros Hx Hall.
  - exists []. split; [reflexivity|]. intros; reflexivity.
  - cbn [forallb] in Hall. apply andb_true_iff in Hall as [H1 H2].
    destruct (Hx x (or_introl eq_refl) H1) as (a & Ha & Hd).
    destruct (IH (fun y Hy => Hx y (or_intror Hy)) H2) as (b & Hb & Hdb).
    exists (a ++ b). split.
    + cbn [enc_list]. rewrite Ha. cbn [bind]. rewrite Hb. reflexivity.
    + intros rest. cbn [length dec_items]. rewrite <- app_assoc, Hd. cbn [bind]. rewrite Hdb. reflexivity.
Qed.

(* ---- the binary-count item loop equals the unary one ---- *)
Lemma dec_items_add {A} (d : bytes -> res (A * bytes)) n m bs :
  dec_items d (n + m) bs = do (xs, r) <- dec_items d n bs; do (ys, r') <- dec_items d m r; Ok (xs ++ ys, r').
Proof.
  revert bs. induction n as [|n IH]; intros bs; cbn [Nat.add dec_items bind].
  - destruct (dec_items d m bs) as [[ys r']| | |]; reflexivity.
  - destruct (d bs) as [[x r0]| | |]; cbn [bind]; try reflexivity.
    rewrite IH. destruct (dec_items d n r0) as [[xs r]| | |]; cbn [bind]; try reflexivity.
    destruct (dec_items d m r) as [[ys r']| | |]; reflexivity.
Qed.

Lemma dec_pos_spec {A} (d : bytes -> res (A * bytes)) p : forall bs,
  dec_pos d p bs = dec_items d (Pos.to_nat p) bs.
Proof.
  induction p as [q IH|q IH|]; intros bs; cbn [dec_pos].
  - rewrite Pos2Nat.inj_xI. cbn [dec_items]. destruct (d bs) as [[x r0]| | |]; cbn [bind]; try reflexivity.
    replace (2 * Pos.to_nat q)%nat with (Pos.to_nat q + Pos.to_nat q)%nat by lia.
    rewrite dec_items_add, <- IH. destruct (dec_pos d q r0) as [[xs r]| | |]; cbn [bind]; try reflexivity.
    rewrite <- IH. destruct (dec_pos d q r) as [[ys r']| | |]; reflexivity.
  - rewrite Pos2Nat.inj_xO. replace (2 * Pos.to_nat q)%nat with (Pos.to_nat q + Pos.to_nat q)%nat by lia.
    rewrite dec_items_add, <- IH. destruct (dec_pos d q bs) as [[xs r]| | |]; cbn [bind]; try reflexivity.
    rewrite <- IH. reflexivity.
  - change (Pos.to_nat 1) with 1%nat. cbn [dec_items]. destruct (d bs) as [[x r]| | |]; reflexivity.
Qed.

Lemma dec_count_spec {A} (d : bytes -> res (A * bytes)) n bs :
  dec_count d n bs = dec_items d (N.to_nat n) bs.
Proof. destruct n as [|p]; [reflexivity|]. cbn [dec_count N.to_nat]. apply dec_pos_spec. Qed.

Lemma len_ok_spec c n : len_ok c n = true -> n <= max_alloc c /\ n < 2 ^ 63.
Proof. unfold len_ok. intros H. apply andb_true_iff in H as [H1 H2]. apply N.leb_le in H1. apply N.ltb_lt in H2. split; assumption. Qed.

Lemma seq_len_pos c n r : 0 < n -> len_ok c n = true ->
  dec_seq_len c (enc_long (Z.of_N n) ++ r) = Ok (n, r).
Proof.
  intros Hp Hl. apply len_ok_spec in Hl as [H1 H2]. unfold dec_seq_len.
  rewrite long_roundtrip by (apply in_i64_spec; lia).
  assert (E0 : (Z.of_N n =? 0)%Z = false) by lia.
  assert (E1 : (Z.of_N n <? 0)%Z = false) by lia.
  rewrite E0, E1. unfold safe_len. rewrite N2Z.id.
  assert (E2 : (n <=? max_alloc c) = true) by lia. rewrite E2. reflexivity.
Qed.

Lemma seq_len_zero c r : dec_seq_len c (0 :: r) = Ok (0, r).
Proof. reflexivity. Qed.

Lemma dec_len_ok c n r : len_ok c n = true -> dec_len c (enc_long (Z.of_N n) ++ r) = Ok (n, r).
Proof.
  intros Hl. apply len_ok_spec in Hl as [H1 H2]. unfold dec_len.
  rewrite long_roundtrip by (apply in_i64_spec; lia).
  assert (E1 : (Z.of_N n <? 0)%Z = false) by lia. rewrite E1.
  unfold safe_len. rewrite N2Z.id.
  assert (E2 : (n <=? max_alloc c) = true) by lia. rewrite E2. reflexivity.
Qed.

Lemma dec_bytes_ok c b r : len_ok c (lenN b) = true -> dec_bytes c (enc_bytes b ++ r) = Ok (b, r).
Proof.
  intros Hl. unfold dec_bytes, enc_bytes. rewrite <- app_assoc, dec_len_ok by assumption.
  cbn [bind]. rewrite take_app. reflexivity.
Qed.

Lemma blocks_rt {A} c esize (d : bytes -> res (A * bytes)) (l : list A) b g rest :
  l <> [] -> count_ok c esize (lenN l) = true ->
  (forall r, dec_items d (length l) (b ++ r) = Ok (l, r)) ->
  (2 <= g)%nat ->
  dec_blocks c esize d g 0 (enc_long (Z.of_N (lenN l)) ++ b ++ [0] ++ rest) = Ok (l, rest).
Proof.
  intros Hne Hc Hd Hg. destruct g as [|[|g]]; try lia.
  unfold count_ok in Hc. apply andb_true_iff in Hc as [Hl Hs].
  assert (Hpos : 0 < lenN l) by (destruct l; [congruence|rewrite lenN_cons; lia]).
  cbn [dec_blocks]. rewrite seq_len_pos by assumption. cbn [bind].
  assert (E0 : (lenN l =? 0) = false) by (apply N.eqb_neq; lia). rewrite E0.
  rewrite N.add_0_l, Hs.
  rewrite dec_count_spec. unfold lenN at 1. rewrite Nat2N.id. rewrite Hd. cbn [bind].
  cbn [app]. rewrite seq_len_zero. cbn [bind]. rewrite N.eqb_refl. cbn [bind].
  rewrite app_nil_r. reflexivity.
Qed.

Lemma blocks_empty {A} c esize (d : bytes -> res (A * bytes)) g have rest :
  (1 <= g)%nat -> dec_blocks c esize d g have (0 :: rest) = Ok ([], rest).
Proof. intros Hg. destruct g; [lia|]. reflexivity. Qed.

(* ---- records ---- *)
Lemma lookup_last_none cf k fs (l : list (str * value)) :
  conf_fields cf fs l = true ->
  existsb (bytes_eqb k) (map (fun ms : fmeta * schema => f_name (fst ms)) fs) = false ->
  lookup_last k l = None.
Proof.
  revert l. induction fs as [|[m s] fs IH]; intros [|[k' v] l] H E; try discriminate; [reflexivity|].
  cbn [conf_fields] in H.
  apply andb_true_iff in H as [H H3]. apply andb_true_iff in H as [H1 H2].
  cbn [map existsb fst] in E. apply orb_false_iff in E as [E1 E2].
  cbn [lookup_last]. rewrite (IH l H3 E2).
  apply bytes_eqb_eq in H1. subst k'. rewrite E1. reflexivity.
Qed.

Lemma lookup_last_app {A} k (v : A) pre post :
  lookup_last k post = None -> lookup_last k (pre ++ (k, v) :: post) = Some v.
Proof.
  intros Hn. induction pre as [|[k' v'] pre IH]; cbn [app lookup_last].
  - rewrite Hn, bytes_eqb_refl. reflexivity.
  - rewrite IH. reflexivity.
Qed.

Lemma fields_rt (cf : schema -> value -> bool) (e : schema -> value -> res bytes)
      (d : schema -> bytes -> res (value * bytes)) :
  (forall s v, cf s v = true -> exists a, e s v = Ok a /\ forall r, d s (a ++ r) = Ok (v, r)) ->
  forall fs l pre,
    nodup_strs (map (fun ms : fmeta * schema => f_name (fst ms)) fs) = true ->
    conf_fields cf fs l = true ->
    exists b, enc_fields e fs (pre ++ l) = Ok b /\
              forall rest, dec_fields d fs (b ++ rest) = Ok (l, rest).
Proof.
  intros Hcf. induction fs as [|[m s] fs IH]; intros [|[k v] l] pre Hnd Hc; try discriminate.
  - exists []. split; [reflexivity|]. intros; reflexivity.
  - cbn [conf_fields] in Hc. apply andb_true_iff in Hc as [Hc H3]. apply andb_true_iff in Hc as [H1 H2].
    apply bytes_eqb_eq in H1. subst k.
    cbn [map nodup_strs fst] in Hnd. apply andb_true_iff in Hnd as [Hn1 Hn2].
    apply negb_true_iff in Hn1.
    assert (Hlast : lookup_last (f_name m) l = None).
    { eapply lookup_last_none; [exact H3|exact Hn1]. }
    destruct (Hcf s v H2) as (a & Ha & Hd).
    destruct (IH l (pre ++ [(f_name m, v)]) Hn2 H3) as (b & Hb & Hdb).
    rewrite <- app_assoc in Hb. cbn [app] in Hb.
    exists (a ++ b). split.
    + cbn [enc_fields]. rewrite (lookup_last_app _ _ _ _ Hlast). rewrite Ha. cbn [bind]. rewrite Hb. reflexivity.
    + intros rest. cbn [dec_fields]. rewrite <- app_assoc, Hd. cbn [bind]. rewrite Hdb. reflexivity.
Qed.

(* ---- maps ---- *)
Lemma lookup_app_none {A} k (a b : list (bytes * A)) :
  lookup k (a ++ b) = None -> lookup k a = None /\ lookup k b = None.
Proof.
  induction a as [|[k' v] a IH]; cbn [app lookup]; intros H; [split; [reflexivity|assumption]|].
  destruct (bytes_eqb k k'); [discriminate|]. apply IH. assumption.
Qed.

Lemma map_insert_fresh {A} k (v : A) acc : lookup k acc = None -> map_insert k v acc = acc ++ [(k, v)].
Proof.
  induction acc as [|[k' v'] acc IH]; cbn [lookup map_insert app]; intros H; [reflexivity|].
  destruct (bytes_eqb k k'); [discriminate|]. rewrite IH by assumption. reflexivity.
Qed.

Lemma nodup_keys_mid {A} (acc : list (bytes * A)) k v l :
  nodup_keys (acc ++ (k, v) :: l) = true -> lookup k acc = None.
Proof.
  induction acc as [|[k' v'] acc IH]; cbn [app nodup_keys lookup]; intros H; [reflexivity|].
  destruct (lookup k' (acc ++ (k, v) :: l)) eqn:E; [discriminate|].
  apply lookup_app_none in E as [_ E]. cbn [lookup] in E.
  destruct (bytes_eqb k' k) eqn:E2; [discriminate|].
  assert (E3 : bytes_eqb k k' = false).
  { destruct (bytes_eqb k k') eqn:E4; [|reflexivity]. apply bytes_eqb_eq in E4. subst.
    rewrite bytes_eqb_refl in E2. discriminate. }
  rewrite E3. apply IH. assumption.
Qed.

Lemma map_of_list_nodup {A} (l : list (bytes * A)) : nodup_keys l = true -> map_of_list l = l.
Proof.
  unfold map_of_list.
  assert (G : forall acc, nodup_keys (acc ++ l) = true ->
              fold_left (fun a kv => map_insert (fst kv) (snd kv) a) l acc = acc ++ l).
  { induction l as [|[k v] l IH]; intros acc H; cbn [fold_left fst snd].
    - rewrite app_nil_r. reflexivity.
    - rewrite map_insert_fresh by (eapply nodup_keys_mid; exact H).
      rewrite IH by (rewrite <- app_assoc; exact H). rewrite <- app_assoc. reflexivity. }
  intros H. apply (G [] H).
Qed.

(* ---------------- the round trip ---------------- *)

Definition rt_goal (fe : nat) c nmz ee ed s v : Prop :=
  exists bs, encode fe nmz ee s v = Ok bs /\
             forall fd rest, (fe <= fd)%nat -> decode fd c nmz ed s (bs ++ rest) = Ok (v, rest).

Ltac split_and H :=
  repeat match type of H with
         | (_ && _) = true => let H1 := fresh H in apply andb_true_iff in H as [H H1]; try split_and H1
         end.

Lemma take_le n x r : x < 256 ^ (N.of_nat n) -> lenN (le_bytes n x) = N.of_nat n ->
  take (N.of_nat n) (le_bytes n x ++ r) = Some (le_bytes n x, r).
Proof. intros _ H. apply take_app_n. exact H. Qed.

Lemma lenN_le n x : lenN (le_bytes n x) = N.of_nat n.
Proof. unfold lenN. rewrite le_bytes_length. reflexivity. Qed.

Lemma match_nonempty {A B} (l : list A) (x y : B) :
  l <> [] -> match l with [] => x | _ :: _ => y end = y.
Proof. destruct l; [congruence|reflexivity]. Qed.

Theorem roundtrip_gen c nmz : names_ok nmz ->
  forall fe s v ee ed, agree ee ed s -> conforms fe c nmz ed s v = true -> rt_goal fe c nmz ee ed s v.
Proof.
  intros Hok. induction fe as [|f IH]; intros s v ee ed Hag Hc; [discriminate|].
  unfold rt_goal.
  destruct s.
  28: { (* ref *)
    cbn [conforms] in Hc. cbn [agree] in Hag.
    destruct (names_get (fqn n ed) nmz) as [s'|] eqn:Hget; [|discriminate].
    destruct (IH s' v ee (ns (fqn n ed))) as (ea & Hea & Hda); [|exact Hc|].
    + eapply agree_ref; eassumption.
    + exists ea. split.
      * cbn [encode]. rewrite (fqn_nsq n ee ed Hag), Hget. exact Hea.
      * intros [|g] rest Hg; [lia|]. cbn [decode]. rewrite Hget. apply Hda. lia.
  }
  (* every non-reference schema: case on the value *)
  all: try (destruct v; cbn [conforms] in Hc; try discriminate).
  all: try (destruct inner; cbn [conforms] in Hc; try discriminate).
  all: try (destruct u; cbn [conforms] in Hc; try discriminate).
  - (* null *)
    exists []. split; [reflexivity|]. intros [|g] rest Hg; [lia|]. reflexivity.
  - (* boolean *)
    exists [if b then 1 else 0]. split; [reflexivity|]. intros [|g] rest Hg; [lia|].
    destruct b; reflexivity.
  - (* int *)
    exists (enc_long z). split; [reflexivity|]. intros [|g] rest Hg; [lia|].
    cbn [decode]. rewrite int_roundtrip by assumption. reflexivity.
  - (* long *)
    exists (enc_long z). split; [reflexivity|]. intros [|g] rest Hg; [lia|].
    cbn [decode]. rewrite long_roundtrip by assumption. reflexivity.
  - (* float *)
    apply N.ltb_lt in Hc.
    exists (le_bytes 4 bits). split; [reflexivity|]. intros [|g] rest Hg; [lia|].
    cbn [decode]. rewrite (take_app_n 4) by (apply (lenN_le 4)).
    rewrite (of_le_le_bytes 4) by exact Hc. reflexivity.
  - (* double *)
    apply N.ltb_lt in Hc.
    exists (le_bytes 8 bits). split; [reflexivity|]. intros [|g] rest Hg; [lia|].
    cbn [decode]. rewrite (take_app_n 8) by (apply (lenN_le 8)).
    rewrite (of_le_le_bytes 8) by exact Hc. reflexivity.
  - (* bytes *)
    unfold bytes_ok in Hc. apply andb_true_iff in Hc as [Hall Hlen].
    exists (enc_bytes b). split; [reflexivity|]. intros [|g] rest Hg; [lia|].
    cbn [decode]. rewrite dec_bytes_ok by assumption. reflexivity.
  - (* string *)
    unfold str_ok, bytes_ok in Hc. apply andb_true_iff in Hc as [Hc Hutf].
    apply andb_true_iff in Hc as [Hall Hlen].
    exists (enc_bytes s). split; [reflexivity|]. intros [|g] rest Hg; [lia|].
    cbn [decode]. unfold dec_string. rewrite dec_bytes_ok by assumption. cbn [bind].
    rewrite Hutf. reflexivity.
  - (* array *)
    apply andb_true_iff in Hc as [Hc Hc0].
    destruct l as [|x xs].
    + exists [0]. split; [reflexivity|]. intros [|g] rest Hg; [lia|].
      cbn [decode app]. rewrite blocks_empty by lia. reflexivity.
    + remember (x :: xs) as l eqn:El.
      assert (Hne : l <> []) by (subst l; discriminate).
      destruct (items_rt (conforms f c nmz ed s) (encode f nmz ee s) (decode f c nmz ed s) l) as (b & Hb & Hd).
      { intros y _ Hy. destruct (IH s y ee ed (agree_of_nsq _ _ _ Hag) Hy) as (ea & Hea & Hda).
        exists ea. split; [exact Hea|]. intros r. apply Hda. lia. }
      { exact Hc0. }
      exists (enc_long (Z.of_N (lenN l)) ++ b ++ [0]). split.
      * cbn [encode]. rewrite match_nonempty by exact Hne. rewrite Hb. reflexivity.
      * intros [|g] rest Hg; [lia|]. cbn [decode].
        assert (Hd' : forall r, dec_items (decode g c nmz ed s) (length l) (b ++ r) = Ok (l, r)).
        { intros r.
          destruct (items_rt (conforms f c nmz ed s) (encode f nmz ee s) (decode g c nmz ed s) l) as (b' & Hb' & Hd'').
          - intros y _ Hy. destruct (IH s y ee ed (agree_of_nsq _ _ _ Hag) Hy) as (ea' & Hea' & Hda').
            exists ea'. split; [exact Hea'|]. intros r'. apply Hda'. lia.
          - exact Hc0.
          - rewrite Hb in Hb'. inversion Hb'; subst b'. apply Hd''. }
        rewrite <- !app_assoc.
        rewrite (blocks_rt c (vsize c) (decode g c nmz ed s) l b); try assumption.
        -- reflexivity.
        -- rewrite !app_length. pose proof (enc_long_length_pos (Z.of_N (lenN l))). cbn [length]. lia.
  - (* map *)
    rename l into m.
    apply andb_true_iff in Hc as [Hc Hall]. apply andb_true_iff in Hc as [Hcnt Hnd].
    set (P := fun kv : str * value => str_ok c (fst kv) && conforms f c nmz ed s (snd kv)) in Hall.
    set (E := fun kv : str * value => do ea <- encode f nmz ee s (snd kv); Ok (enc_bytes (fst kv) ++ ea)).
    assert (Hitems : forall g, (f <= g)%nat ->
             exists b, enc_list E m = Ok b /\
               forall rest, dec_items (fun b0 => do (k, r1) <- dec_string c b0;
                                                 do (x, r2) <- decode g c nmz ed s r1; Ok ((k, x), r2))
                                      (length m) (b ++ rest) = Ok (m, rest)).
    { intros g Hg. apply (items_rt P); [|exact Hall].
      intros [k x] _ Hp. unfold P in Hp. cbn [fst snd] in Hp. apply andb_true_iff in Hp as [Hk Hx].
      destruct (IH s x ee ed (agree_of_nsq _ _ _ Hag) Hx) as (ea & Hea & Hda).
      exists (enc_bytes k ++ ea). split.
      - unfold E. cbn [fst snd]. rewrite Hea. reflexivity.
      - intros r. unfold str_ok, bytes_ok in Hk. apply andb_true_iff in Hk as [Hk Hutf].
        apply andb_true_iff in Hk as [Hkb Hkl].
        unfold dec_string. rewrite <- app_assoc, dec_bytes_ok by assumption. cbn [bind]. rewrite Hutf.
        cbn [bind]. rewrite Hda by lia. reflexivity. }
    destruct m as [|kv m'].
    + exists [0]. split; [reflexivity|]. intros [|g] rest Hg; [lia|].
      cbn [decode app]. rewrite blocks_empty by lia. reflexivity.
    + remember (kv :: m') as m eqn:Em.
      assert (Hne : m <> []) by (subst m; discriminate).
      destruct (Hitems f (le_n f)) as (b & Hb & _).
      exists (enc_long (Z.of_N (lenN m)) ++ b ++ [0]). split.
      * cbn [encode]. rewrite match_nonempty by exact Hne. fold E. rewrite Hb. reflexivity.
      * intros [|g] rest Hg; [lia|]. cbn [decode].
        destruct (Hitems g ltac:(lia)) as (b' & Hb' & Hd').
        rewrite Hb in Hb'. inversion Hb'; subst b'.
        rewrite <- !app_assoc.
        rewrite (blocks_rt c (kvsize c) _ m b); try assumption.
        -- cbn [bind]. rewrite map_of_list_nodup by assumption. reflexivity.
        -- rewrite !app_length. pose proof (enc_long_length_pos (Z.of_N (lenN m))). cbn [length]. lia.
  - (* union *)
    apply andb_true_iff in Hc as [Hi Hb]. apply N.ltb_lt in Hi.
    destruct (nth_N branches i) as [br|] eqn:Hn; [|discriminate].
    destruct (IH br v ee ed (agree_of_nsq _ _ _ Hag) Hb) as (ea & Hea & Hda).
    exists (enc_long (Z.of_N i) ++ ea). split.
    + cbn [encode]. rewrite Hn, Hea. reflexivity.
    + intros [|g] rest Hg; [lia|]. cbn [decode].
      rewrite <- app_assoc, long_roundtrip by (apply in_i64_spec; lia).
      assert (E1 : (Z.of_N i <? 0)%Z = false) by lia. rewrite E1.
      rewrite N2Z.id, Hn, Hda by lia. cbn [bind].
      rewrite N.mod_small by lia. reflexivity.
  - (* record *)
    apply andb_true_iff in Hc as [Hnd Hcf].
    destruct (fields_rt (conforms f c nmz (ns (fqn n ed))) (encode f nmz (ns_or n ee))
                        (decode f c nmz (ns (fqn n ed)))) with (fs := fields) (l := l) (pre := @nil (str * value))
      as (b & Hb & _); try assumption.
    { intros s0 v0 H0. destruct (IH s0 v0 (ns_or n ee) (ns (fqn n ed))) as (ea & Hea & Hda); [|exact H0|].
      - apply agree_of_nsq. exact Hag.
      - exists ea. split; [exact Hea|]. intros r. apply Hda. lia. }
    exists b. split.
    + cbn [encode]. exact Hb.
    + intros [|g] rest Hg; [lia|]. cbn [decode].
      destruct (fields_rt (conforms f c nmz (ns (fqn n ed))) (encode f nmz (ns_or n ee))
                          (decode g c nmz (ns (fqn n ed)))) with (fs := fields) (l := l) (pre := @nil (str * value))
        as (b' & Hb' & Hd'); try assumption.
      { intros s0 v0 H0. destruct (IH s0 v0 (ns_or n ee) (ns (fqn n ed))) as (ea & Hea & Hda); [|exact H0|].
        - apply agree_of_nsq. exact Hag.
        - exists ea. split; [exact Hea|]. intros r. apply Hda. lia. }
      cbn [app] in Hb, Hb'. rewrite Hb in Hb'. inversion Hb'; subst b'.
      rewrite Hd'. reflexivity.
  - (* enum *)
    apply andb_true_iff in Hc as [Hi Hs]. apply N.ltb_lt in Hi.
    destruct (nth_N symbols i) as [y|] eqn:Hn; [|discriminate]. apply bytes_eqb_eq in Hs. subst y.
    exists (enc_long (wrap_i32 i)). split; [reflexivity|]. intros [|g] rest Hg; [lia|].
    cbn [decode]. unfold wrap_i32. assert (E : (i <? 2 ^ 31) = true) by (apply N.ltb_lt; exact Hi). rewrite E.
    rewrite int_roundtrip by (apply in_i32_spec; lia).
    assert (E1 : (Z.of_N i <? 0)%Z = false) by lia. rewrite E1, N2Z.id, Hn. reflexivity.
  - (* fixed *)
    apply andb_true_iff in Hc as [Hc Hall]. apply andb_true_iff in Hc as [Hn Hl].
    apply N.eqb_eq in Hn, Hl. subst n.
    exists b. split; [reflexivity|]. intros [|g] rest Hg; [lia|].
    cbn [decode]. unfold dec_fixed. rewrite (take_app_n (fx_size f0)) by exact Hl. reflexivity.
  - (* decimal / bytes *)
    apply andb_true_iff in Hc as [Hc Hne]. unfold bytes_ok in Hc. apply andb_true_iff in Hc as [Hall Hlen].
    assert (Hb : b <> []) by (intros ->; discriminate).
    exists (enc_bytes b). split.
    + cbn [encode]. rewrite dec_to_vec_self by exact Hb. reflexivity.
    + intros [|g] rest Hg; [lia|]. cbn [decode]. rewrite dec_bytes_ok by assumption. reflexivity.
  - (* decimal / fixed *)
    apply andb_true_iff in Hc as [Hc Hne]. apply andb_true_iff in Hc as [Hl Hall].
    apply N.eqb_eq in Hl.
    assert (Hb : b <> []) by (intros ->; discriminate).
    exists b. split.
    + cbn [encode]. rewrite <- Hl, sign_extend_self by exact Hb. reflexivity.
    + intros [|g] rest Hg; [lia|]. cbn [decode]. unfold dec_fixed.
      rewrite (take_app_n (fx_size f0)) by exact Hl. reflexivity.
  - (* big decimal *)
    apply andb_true_iff in Hc as [Hc Hl2]. apply andb_true_iff in Hc as [Hc Hl1].
    apply andb_true_iff in Hc as [Hc Hsc]. apply andb_true_iff in Hc as [Hall Hmin].
    apply bytes_eqb_eq in Hmin.
    exists (enc_bigdec unscaled scale). split; [reflexivity|]. intros [|g] rest Hg; [lia|].
    cbn [decode]. unfold enc_bigdec. rewrite dec_bytes_ok by exact Hl2. cbn [bind].
    unfold dec_bigdec.
    rewrite <- (app_nil_r (enc_bytes unscaled ++ enc_long scale)), <- app_assoc.
    rewrite dec_bytes_ok by exact Hl1. cbn [bind].
    rewrite long_roundtrip by exact Hsc. rewrite Hmin. reflexivity.
  - (* uuid / string *)
    apply andb_true_iff in Hc as [Hc Hlen]. apply andb_true_iff in Hc as [Hl Hall]. apply N.eqb_eq in Hl.
    destruct (uuid_text_facts b Hl Hall) as (Hp & Ht & Hasc).
    exists (enc_bytes (uuid_text b)). split; [reflexivity|]. intros [|g] rest Hg; [lia|].
    cbn [decode]. unfold dec_string. rewrite dec_bytes_ok by (rewrite Ht; exact Hlen). cbn [bind].
    rewrite ascii_utf8 by exact Hasc. cbn [bind]. rewrite Hp. reflexivity.
  - (* uuid / bytes *)
    apply andb_true_iff in Hc as [Hc Hlen]. apply andb_true_iff in Hc as [Hl Hall]. apply N.eqb_eq in Hl.
    exists (enc_bytes b). split; [reflexivity|]. intros [|g] rest Hg; [lia|].
    cbn [decode]. rewrite dec_bytes_ok by (rewrite Hl; exact Hlen). cbn [bind].
    rewrite Hl. reflexivity.
  - (* uuid / fixed *)
    apply andb_true_iff in Hc as [Hc Hsz]. apply andb_true_iff in Hc as [Hl Hall]. apply N.eqb_eq in Hl.
    exists b. split.
    + cbn [encode]. rewrite Hsz. reflexivity.
    + intros [|g] rest Hg; [lia|]. cbn [decode]. unfold dec_fixed.
      apply N.eqb_eq in Hsz. rewrite (take_app_n (fx_size f0)) by (rewrite Hsz; exact Hl). cbn [bind].
      rewrite Hsz. reflexivity.
  - (* date *)
    exists (enc_long z). split; [reflexivity|]. intros [|g] rest Hg; [lia|].
    cbn [decode]. rewrite int_roundtrip by assumption. reflexivity.
  - (* time-millis *)
    exists (enc_long z). split; [reflexivity|]. intros [|g] rest Hg; [lia|].
    cbn [decode]. rewrite int_roundtrip by assumption. reflexivity.
  - exists (enc_long z). split; [reflexivity|]. intros [|g] rest Hg; [lia|].
    cbn [decode]. rewrite long_roundtrip by assumption. reflexivity.
  - exists (enc_long z). split; [reflexivity|]. intros [|g] rest Hg; [lia|].
    cbn [decode]. rewrite long_roundtrip by assumption. reflexivity.
  - exists (enc_long z). split; [reflexivity|]. intros [|g] rest Hg; [lia|].
    cbn [decode]. rewrite long_roundtrip by assumption. reflexivity.
  - exists (enc_long z). split; [reflexivity|]. intros [|g] rest Hg; [lia|].
    cbn [decode]. rewrite long_roundtrip by assumption. reflexivity.
  - exists (enc_long z). split; [reflexivity|]. intros [|g] rest Hg; [lia|].
    cbn [decode]. rewrite long_roundtrip by assumption. reflexivity.
  - exists (enc_long z). split; [reflexivity|]. intros [|g] rest Hg; [lia|].
    cbn [decode]. rewrite long_roundtrip by assumption. reflexivity.
  - exists (enc_long z). split; [reflexivity|]. intros [|g] rest Hg; [lia|].
    cbn [decode]. rewrite long_roundtrip by assumption. reflexivity.
  - (* duration *)
    apply andb_true_iff in Hc as [Hc H3]. apply andb_true_iff in Hc as [Hc H2].
    apply andb_true_iff in Hc as [Hsz H1]. apply N.ltb_lt in H1, H2, H3.
    exists (le_bytes 4 months ++ le_bytes 4 days ++ le_bytes 4 millis). split; [reflexivity|].
    intros [|g] rest Hg; [lia|]. cbn [decode]. rewrite Hsz.
    rewrite <- !app_assoc.
    rewrite (take_app_n 4) by (apply (lenN_le 4)).
    rewrite (take_app_n 4) by (apply (lenN_le 4)).
    rewrite (take_app_n 4) by (apply (lenN_le 4)).
    rewrite !(of_le_le_bytes 4) by assumption. reflexivity.
Qed.
