(* Lemmas about the schema serialiser model (C10): the JSON it emits repeats no key. *)
From AvroV Require Import Base Schema Lit SchemaJson BytesP.
From Coq Require Import String.
Open Scope N_scope.

(* induction over schemas through their nested lists *)
Section SchemaInd.
  Variable P : schema -> Prop.
  Hypothesis Hleaf : forall s, (match s with
                                | SArray _ _ | SMap _ _ | SUnion _ | SRecord _ _ _ _ _ => False
                                | _ => True end) -> P s.
  Hypothesis Harr : forall it a, P it -> P (SArray it a).
  Hypothesis Hmap : forall vt a, P vt -> P (SMap vt a).
  Hypothesis Hunion : forall bs, Forall P bs -> P (SUnion bs).
  Hypothesis Hrec : forall n al doc fs a, Forall (fun ms : fmeta * schema => P (snd ms)) fs -> P (SRecord n al doc fs a).
  Fixpoint schema_ind' (s : schema) : P s :=
    match s with
    | SArray it a => Harr it a (schema_ind' it)
    | SMap vt a => Hmap vt a (schema_ind' vt)
    | SUnion bs =>
      Hunion bs ((fix go (l : list schema) : Forall P l :=
                    match l with [] => Forall_nil _ | b :: r => Forall_cons _ (schema_ind' b) (go r) end) bs)
    | SRecord n al doc fs a =>
      Hrec n al doc fs a
           ((fix go (l : list (fmeta * schema)) : Forall (fun ms => P (snd ms)) l :=
               match l with [] => Forall_nil _ | ms :: r => Forall_cons _ (schema_ind' (snd ms)) (go r) end) fs)
    | s' => Hleaf s' I
    end.
End SchemaInd.

(* custom attributes: distinct keys, none of them a key the node writes itself, strict values *)
Definition attrs_okb (own : list str) (a : attrs) : bool :=
  nodup_keys (map fst a) && forallb (fun k => negb (existsb (bytes_eqb k) (map fst a))) own
  && forallb (fun kv => strict (snd kv)) a.

Definition rec_own : list str := [K "type"; K "namespace"; K "name"; K "doc"; K "aliases"; K "fields"].
Definition enum_own : list str := [K "type"; K "namespace"; K "name"; K "symbols"; K "aliases"; K "default"; K "doc"].
Definition fixed_own : list str := [K "type"; K "namespace"; K "name"; K "doc"; K "size"; K "aliases"; K "logicalType"].
Definition field_own : list str := [K "name"; K "type"; K "default"; K "doc"; K "aliases"].

Definition fixed_okb (f : fixedS) : bool := attrs_okb fixed_own (fx_attrs f).
(* the fixed inside a decimal may carry precision and scale: the decimal leaves them out *)
Definition dec_fixed_okb (f : fixedS) : bool :=
  attrs_okb fixed_own (fx_attrs f).

Fixpoint cleanb (s : schema) : bool :=
  match s with
  | SArray it a => attrs_okb [K "type"; K "items"] a && cleanb it
  | SMap vt a => attrs_okb [K "type"; K "values"] a && cleanb vt
  | SUnion bs => forallb cleanb bs
  | SRecord _ _ _ fs a =>
    attrs_okb rec_own a
    && forallb (fun ms : fmeta * schema =>
                  attrs_okb field_own (f_attrs (fst ms))
                  && (match f_default (fst ms) with Some d => strict d | None => true end)
                  && cleanb (snd ms)) fs
  | SEnum _ _ _ _ _ a => attrs_okb enum_own a
  | SFixed f | SUuid (UFixed f) | SDuration f => fixed_okb f
  | SDecimal _ _ (DFixed f) => dec_fixed_okb f
  | _ => true
  end.

Lemma existsb_app' {A} (p : A -> bool) l1 l2 : existsb p (l1 ++ l2) = existsb p l1 || existsb p l2.
Proof. induction l1 as [|x l IH]; cbn [app existsb]; [reflexivity|]. rewrite IH, orb_assoc. reflexivity. Qed.

Lemma nodup_prefix P a :
  nodup_keys P = true -> nodup_keys a = true ->
  forallb (fun k => negb (existsb (bytes_eqb k) a)) P = true -> nodup_keys (P ++ a) = true.
Proof.
  induction P as [|k r IH]; cbn [app nodup_keys forallb]; intros H1 H2 H3; [exact H2|].
  apply andb_prop in H1. destruct H1 as [H1a H1b]. apply andb_prop in H3. destruct H3 as [H3a H3b].
  rewrite existsb_app'. apply negb_true_iff in H1a. apply negb_true_iff in H3a. rewrite H1a, H3a. cbn.
  apply IH; assumption.
Qed.

Lemma forallb_sub {A} (f : A -> bool) (big small : list A) :
  forallb f big = true -> (forall x, In x small -> In x big) -> forallb f small = true.
Proof. intros H Hs. apply forallb_forall. intros x Hx. rewrite forallb_forall in H. apply H, Hs, Hx. Qed.

(* an object made of a prefix of the node's own entries followed by its custom attributes *)
Lemma strict_obj (own : list str) (pre : list (str * json)) (a : attrs) :
  attrs_okb own a = true ->
  nodup_keys (map fst pre) = true -> (forall k, In k (map fst pre) -> In k own) ->
  forallb (fun kv => strict (snd kv)) pre = true ->
  strict (JObj (pre ++ a)) = true.
Proof.
  unfold attrs_okb. intros H Hnd Hsub Hv.
  apply andb_prop in H. destruct H as [H Hav]. apply andb_prop in H. destruct H as [Hnda Hown].
  cbn [strict]. rewrite map_app, forallb_app, Hv, Hav, andb_true_r.
  apply nodup_prefix; [exact Hnd|exact Hnda|]. eapply forallb_sub; [exact Hown|exact Hsub].
Qed.

Ltac in_own := cbn [map fst app In]; intros ? Hin; repeat (destruct Hin as [<-|Hin]; [cbn; tauto|]); destruct Hin.

Lemma strict_strs l : forallb strict (map JStr l) = true.
Proof. induction l; [reflexivity|exact IHl]. Qed.
Lemma strict_names (l : list name) : forallb strict (map (fun a => JStr (fullname a)) l) = true.
Proof. induction l; [reflexivity|exact IHl]. Qed.

Lemma nodup_keys_filter (p : str * json -> bool) (a : attrs) :
  nodup_keys (map fst a) = true -> nodup_keys (map fst (filter p a)) = true.
Proof.
  induction a as [|[k v] r IH]; cbn [map filter nodup_keys fst]; intros H; [reflexivity|].
  apply andb_prop in H. destruct H as [H1 H2]. destruct (p (k, v)); cbn [map nodup_keys fst]; [|apply IH; exact H2].
  apply andb_true_intro. split; [|apply IH; exact H2].
  apply negb_true_iff. apply negb_true_iff in H1.
  destruct (existsb (bytes_eqb k) (map fst (filter p r))) eqn:E; [|reflexivity].
  apply existsb_exists in E. destruct E as (x & Hx & Hk).
  assert (existsb (bytes_eqb k) (map fst r) = true).
  { apply existsb_exists. exists x. split; [|exact Hk].
    apply in_map_iff in Hx. destruct Hx as (kv & <- & Hkv). apply filter_In in Hkv. apply in_map. apply Hkv. }
  congruence.
Qed.

Lemma notin_filter k (p : str * json -> bool) (a : attrs) :
  existsb (bytes_eqb k) (map fst a) = false -> existsb (bytes_eqb k) (map fst (filter p a)) = false.
Proof.
  intros H. destruct (existsb (bytes_eqb k) (map fst (filter p a))) eqn:E; [|reflexivity].
  apply existsb_exists in E. destruct E as (x & Hx & Hk).
  assert (existsb (bytes_eqb k) (map fst a) = true).
  { apply existsb_exists. exists x. split; [|exact Hk].
    apply in_map_iff in Hx. destruct Hx as (kv & <- & Hkv). apply filter_In in Hkv. apply in_map. apply Hkv. }
  congruence.
Qed.

Lemma filtered_out k without (a : attrs) :
  existsb (bytes_eqb k) without = true ->
  existsb (bytes_eqb k) (map fst (filter (fun kv => negb (existsb (bytes_eqb (fst kv)) without)) a)) = false.
Proof.
  intros Hw. induction a as [|[k0 v] r IH]; cbn [filter map fst existsb]; [reflexivity|].
  destruct (existsb (bytes_eqb k0) without) eqn:E0; cbn [negb map fst existsb]; [exact IH|].
  rewrite IH, orb_false_r. destruct (bytes_eqb k k0) eqn:Ek; [|reflexivity].
  apply bytes_eqb_eq in Ek. subst k0. congruence.
Qed.

(* own entries, (a filtered part of) the custom attributes, then entries a logical type adds *)
Lemma strict_obj3 (own : list str) (pre post : list (str * json)) (a : attrs) (p : str * json -> bool) :
  attrs_okb own a = true ->
  nodup_keys (map fst pre) = true -> nodup_keys (map fst post) = true ->
  forallb (fun k => negb (existsb (bytes_eqb k) (map fst post))) (map fst pre) = true ->
  (forall k, In k (map fst pre) -> In k own) ->
  forallb (fun k => negb (existsb (bytes_eqb k) (map fst post))) (map fst (filter p a)) = true ->
  forallb (fun kv => strict (snd kv)) pre = true -> forallb (fun kv => strict (snd kv)) post = true ->
  strict (JObj (pre ++ filter p a ++ post)) = true.
Proof.
  unfold attrs_okb. intros H Hnd1 Hnd3 Hd13 Hsub Hd23 Hv1 Hv3.
  apply andb_prop in H. destruct H as [H Hav]. apply andb_prop in H. destruct H as [Hnda Hown].
  cbn [strict]. rewrite !map_app, !forallb_app, Hv1, Hv3, andb_true_r.
  assert (Hvf : forallb (fun kv : str * json => strict (snd kv)) (filter p a) = true).
  { apply forallb_forall. intros x Hx. apply filter_In in Hx. rewrite forallb_forall in Hav. apply Hav, Hx. }
  rewrite Hvf, andb_true_r.
  apply nodup_prefix; [exact Hnd1| |].
  - apply nodup_prefix; [apply nodup_keys_filter; exact Hnda|exact Hnd3|exact Hd23].
  - apply forallb_forall. intros k Hk. rewrite existsb_app'. apply negb_true_iff. apply orb_false_iff. split.
    + apply notin_filter. rewrite forallb_forall in Hown. specialize (Hown k (Hsub k Hk)). apply negb_true_iff in Hown. exact Hown.
    + rewrite forallb_forall in Hd13. specialize (Hd13 k Hk). apply negb_true_iff in Hd13. exact Hd13.
Qed.

Definition opt_entry (k : str) (o : option str) : list (str * json) := match o with Some d => [(k, JStr d)] | None => [] end.

(* the fixed's own entries, then its attributes (without the given keys), then what a logical type adds *)
Lemma strict_fixed f without post :
  attrs_okb fixed_own (fx_attrs f) = true ->
  nodup_keys (map fst post) = true -> forallb (fun kv => strict (snd kv)) post = true ->
  forallb (fun k => negb (existsb (bytes_eqb k) (map fst post)))
          [K "type"; K "namespace"; K "name"; K "doc"; K "size"; K "aliases"] = true ->
  forallb (fun k => existsb (bytes_eqb k) without || bytes_eqb k (K "logicalType")) (map fst post) = true ->
  strict (JObj (fixed_entries f without ++ post)) = true.
Proof.
  intros Ha Hnp Hvp Hdisj Hpost. unfold fixed_entries.
  set (pre := [(K "type", JStr (K "fixed"))] ++ j_ns_name (fx_name f) ++ j_opt "doc" (fx_doc f)
              ++ [(K "size", JInt (Z.of_N (fx_size f)))] ++ j_aliases (fx_aliases f)).
  replace (([(K "type", JStr (K "fixed"))] ++ j_ns_name (fx_name f) ++ j_opt "doc" (fx_doc f)
            ++ [(K "size", JInt (Z.of_N (fx_size f)))] ++ j_aliases (fx_aliases f)
            ++ filter (fun kv => negb (existsb (bytes_eqb (fst kv)) without)) (fx_attrs f)) ++ post)
    with (pre ++ filter (fun kv => negb (existsb (bytes_eqb (fst kv)) without)) (fx_attrs f) ++ post)
    by (unfold pre; rewrite <- !app_assoc; reflexivity).
  assert (Hsubpre : forall k, In k (map fst pre) -> In k [K "type"; K "namespace"; K "name"; K "doc"; K "size"; K "aliases"]).
  { unfold pre, j_ns_name, j_opt, j_aliases. destruct (ns (fx_name f)); destruct (fx_doc f); destruct (fx_aliases f); in_own. }
  apply (strict_obj3 fixed_own); try assumption.
  - unfold pre, j_ns_name, j_opt, j_aliases. destruct (ns (fx_name f)); destruct (fx_doc f); destruct (fx_aliases f); reflexivity.
  - eapply forallb_sub; [exact Hdisj|exact Hsubpre].
  - intros k Hk. specialize (Hsubpre k Hk). cbn [In] in Hsubpre |- *. unfold fixed_own. cbn [In]. tauto.
  - (* attributes kept vs post: a post key is either filtered out or "logicalType", which no attribute has *)
    apply forallb_forall. intros k Hk. apply negb_true_iff.
    destruct (existsb (bytes_eqb k) (map fst post)) eqn:E; [|reflexivity]. exfalso.
    apply existsb_exists in E. destruct E as (q & Hq & Hkq). apply bytes_eqb_eq in Hkq. subst q.
    rewrite forallb_forall in Hpost. specialize (Hpost k Hq). apply orb_prop in Hpost. destruct Hpost as [Hw|Hl].
    + pose proof (filtered_out k without (fx_attrs f) Hw) as F.
      assert (existsb (bytes_eqb k) (map fst (filter (fun kv => negb (existsb (bytes_eqb (fst kv)) without)) (fx_attrs f))) = true).
      { apply existsb_exists. exists k. split; [exact Hk|apply bytes_eqb_refl]. }
      congruence.
    + apply bytes_eqb_eq in Hl. subst k. unfold attrs_okb in Ha.
      apply andb_prop in Ha. destruct Ha as [Ha _]. apply andb_prop in Ha. destruct Ha as [_ Hown].
      unfold fixed_own in Hown. cbn [forallb] in Hown.
      repeat (apply andb_prop in Hown; destruct Hown as [? Hown]).
      match goal with Hx : negb (existsb (bytes_eqb (K "logicalType")) _) = true |- _ => apply negb_true_iff in Hx; rename Hx into HL end.
      pose proof (notin_filter (K "logicalType") (fun kv => negb (existsb (bytes_eqb (fst kv)) without)) (fx_attrs f) HL) as F.
      assert (existsb (bytes_eqb (K "logicalType")) (map fst (filter (fun kv => negb (existsb (bytes_eqb (fst kv)) without)) (fx_attrs f))) = true).
      { apply existsb_exists. exists (K "logicalType"). split; [exact Hk|apply bytes_eqb_refl]. }
      congruence.
  - unfold pre, j_ns_name, j_opt, j_aliases. destruct (ns (fx_name f)); destruct (fx_doc f); destruct (fx_aliases f) as [lal|];
      cbn [app forallb snd strict]; rewrite ?strict_names; reflexivity.
Qed.

Theorem ser_strict : forall s, cleanb s = true -> strict (ser s) = true.
Proof.
  apply (schema_ind' (fun s => cleanb s = true -> strict (ser s) = true)).
  - (* leaves *)
    intros s Hl Hc. destruct s; try contradiction; try reflexivity.
    + (* enum *)
      cbn [cleanb] in Hc. cbn [ser].
      rewrite !app_assoc.
      apply (strict_obj enum_own); [exact Hc| | |].
      * unfold j_ns_name, j_opt, j_aliases. destruct (ns n); destruct al; destruct default; destruct doc; reflexivity.
      * unfold j_ns_name, j_opt, j_aliases. destruct (ns n); destruct al; destruct default; destruct doc; in_own.
      * unfold j_ns_name, j_opt, j_aliases. destruct (ns n); destruct al; destruct default; destruct doc;
          cbn [app forallb snd strict]; rewrite ?strict_strs, ?strict_names; reflexivity.
    + (* fixed *)
      cbn [cleanb] in Hc. cbn [ser]. rewrite <- (app_nil_r (fixed_entries f [])).
      apply strict_fixed; [exact Hc|reflexivity|reflexivity|reflexivity|reflexivity].
    + (* decimal *)
      cbn [ser]. destruct inner as [|f]; [reflexivity|]. cbn [cleanb] in Hc.
      apply strict_fixed; [exact Hc|reflexivity|reflexivity|reflexivity|reflexivity].
    + (* uuid *)
      cbn [ser]. destruct u as [| |f]; try reflexivity. cbn [cleanb] in Hc.
      apply strict_fixed; [exact Hc|reflexivity|reflexivity|reflexivity|reflexivity].
    + (* duration *)
      cbn [cleanb] in Hc. cbn [ser].
      apply strict_fixed; [exact Hc|reflexivity|reflexivity|reflexivity|reflexivity].
  - (* array *)
    intros it a IH Hc. cbn [cleanb] in Hc. apply andb_prop in Hc. destruct Hc as [Ha Hi]. cbn [ser].
    apply (strict_obj [K "type"; K "items"] [(K "type", JStr (K "array")); (K "items", ser it)]); [exact Ha|reflexivity|in_own|].
    cbn [forallb snd strict]. rewrite (IH Hi). reflexivity.
  - (* map *)
    intros vt a IH Hc. cbn [cleanb] in Hc. apply andb_prop in Hc. destruct Hc as [Ha Hi]. cbn [ser].
    apply (strict_obj [K "type"; K "values"] [(K "type", JStr (K "map")); (K "values", ser vt)]); [exact Ha|reflexivity|in_own|].
    cbn [forallb snd strict]. rewrite (IH Hi). reflexivity.
  - (* union *)
    intros bs IH Hc. cbn [cleanb] in Hc. cbn [ser strict].
    induction bs as [|b r IHr]; [reflexivity|].
    cbn [forallb] in Hc. apply andb_prop in Hc. destruct Hc as [Hb Hr].
    inversion IH as [|? ? Pb Pr]; subst. cbn [map forallb]. rewrite (Pb Hb). cbn [andb]. apply IHr; assumption.
  - (* record *)
    intros n al doc fs a IH Hc. cbn [cleanb] in Hc. apply andb_prop in Hc. destruct Hc as [Ha Hf]. cbn [ser].
    set (fields_json := JArr (map (fun ms : fmeta * schema =>
                            let m := fst ms in
                            JObj ([(K "name", JStr (f_name m)); (K "type", ser (snd ms))]
                                  ++ (match f_default m with Some d => [(K "default", d)] | None => [] end)
                                  ++ j_opt "doc" (f_doc m)
                                  ++ (match f_aliases m with
                                      | [] => []
                                      | l => [(K "aliases", JArr (map JStr l))] end)
                                  ++ f_attrs m)) fs)).
    assert (Hfj : strict fields_json = true).
    { unfold fields_json. cbn [strict]. clear fields_json Ha.
      induction fs as [|[m fsch] r IHr]; [reflexivity|].
      cbn [forallb] in Hf. apply andb_prop in Hf. destruct Hf as [Hm Hr].
      apply andb_prop in Hm. destruct Hm as [Hm Hcl]. apply andb_prop in Hm. destruct Hm as [Hma Hmd].
      inversion IH as [|? ? Pb Pr]; subst. cbn [snd] in Pb. cbn [fst snd] in Hma, Hmd, Hcl.
      cbn [map forallb]. apply andb_true_intro. split; [|exact (IHr Pr Hr)]. cbn [fst snd].
      rewrite !app_assoc.
      apply (strict_obj field_own); [exact Hma| | |].
      - unfold j_opt. destruct (f_default m); destruct (f_doc m); destruct (f_aliases m); reflexivity.
      - unfold j_opt. destruct (f_default m); destruct (f_doc m); destruct (f_aliases m); in_own.
      - unfold j_opt. destruct (f_default m) as [d|]; destruct (f_doc m); destruct (f_aliases m) as [|xa la];
          cbn [app forallb snd strict]; rewrite ?(Pb Hcl), ?strict_strs; try rewrite Hmd; reflexivity. }
    rewrite !app_assoc.
    apply (strict_obj rec_own); [exact Ha| | |].
    + unfold j_ns_name, j_opt, j_aliases. destruct (ns n); destruct doc; destruct al; reflexivity.
    + unfold j_ns_name, j_opt, j_aliases. destruct (ns n); destruct doc; destruct al; in_own.
    + unfold j_ns_name, j_opt, j_aliases. destruct (ns n); destruct doc; destruct al;
        cbn [app forallb snd strict]; rewrite ?strict_names, ?Hfj; reflexivity.
Qed.
