From AvroV Require Import Base Varint CodecFrame BytesP.
From Coq Require Import ZifyN ZifyBool ZifyNat.
Open Scope N_scope.
Ltac Zify.zify_post_hook ::= Z.div_mod_to_equations.

Lemma be32_roundtrip n : n < 2 ^ 32 -> of_be32 (be32 n) = n.
Proof. intros H. unfold of_be32, be32. lia. Qed.
Lemma be32_length n : length (be32 n) = 4%nat.
Proof. reflexivity. Qed.

Lemma firstn_skipn_tail (a t : bytes) : length t = 4%nat ->
  firstn (length (a ++ t) - 4) (a ++ t) = a /\ skipn (length (a ++ t) - 4) (a ++ t) = t.
Proof.
  intros H. rewrite app_length, H. replace (length a + 4 - 4)%nat with (length a) by lia. split.
  - rewrite firstn_app, Nat.sub_diag, firstn_all, firstn_O, app_nil_r. reflexivity.
  - rewrite skipn_app, Nat.sub_diag, skipn_all, skipn_O. reflexivity.
Qed.

Section Laws.
  Variable max_alloc : N.
  Variable raw_c : bytes -> bytes.
  Variable raw_len : bytes -> res N.
  Variable raw_d : bytes -> res bytes.
  Variable crc : bytes -> N.
  (* what the snappy library is relied on for *)
  Definition crc_range := forall d, crc d < 2 ^ 32.
  Definition raw_roundtrip := forall d, raw_len (raw_c d) = Ok (lenN d) /\ raw_d (raw_c d) = Ok d.
  Definition raw_d_len := forall b out n, raw_len b = Ok n -> raw_d b = Ok out -> lenN out = n.

  Lemma snappy_len4 d : lenN (snappy_compress raw_c crc d) <? 4 = false.
  Proof. unfold snappy_compress, lenN. rewrite app_length, be32_length. lia. Qed.

  (* every payload within the allocation limit comes back *)
  Theorem snappy_roundtrip d : crc_range -> raw_roundtrip -> lenN d <= max_alloc ->
    snappy_decompress max_alloc raw_len raw_d crc (snappy_compress raw_c crc d) = Ok d.
  Proof.
    intros crc_rng raw_rt Hd. unfold snappy_decompress. rewrite snappy_len4. unfold snappy_compress.
    destruct (firstn_skipn_tail (raw_c d) (be32 (crc d)) (be32_length _)) as [E1 E2]. rewrite E1, E2.
    destruct (raw_rt d) as [R1 R2]. rewrite R1. cbn [bind].
    assert (E : (max_alloc <? lenN d) = false) by lia. rewrite E. rewrite R2. cbn [bind].
    rewrite be32_roundtrip by apply crc_rng. rewrite N.eqb_refl. reflexivity.
  Qed.

  (* a wrong checksum is rejected, whatever the four bytes are *)
  Theorem snappy_wrong_checksum d t : raw_roundtrip -> length t = 4%nat -> of_be32 t <> crc d ->
    snappy_decompress max_alloc raw_len raw_d crc (raw_c d ++ t) = Err.
  Proof.
    intros raw_rt Ht Hne. unfold snappy_decompress.
    assert (E4 : (lenN (raw_c d ++ t) <? 4) = false) by (unfold lenN; rewrite app_length, Ht; lia). rewrite E4.
    destruct (firstn_skipn_tail (raw_c d) t Ht) as [E1 E2]. rewrite E1, E2.
    destruct (raw_rt d) as [R1 R2]. rewrite R1. cbn [bind].
    destruct (max_alloc <? lenN d); [reflexivity|]. rewrite R2. cbn [bind].
    assert (E : (of_be32 t =? crc d) = false) by lia. rewrite E. reflexivity.
  Qed.

  (* fewer than four bytes cannot be a snappy block *)
  Theorem snappy_short blk : lenN blk < 4 -> snappy_decompress max_alloc raw_len raw_d crc blk = Err.
  Proof. intros H. unfold snappy_decompress. assert (E : (lenN blk <? 4) = true) by lia. rewrite E. reflexivity. Qed.

  (* whatever the bytes are: an error, or data no larger than the allocation limit *)
  Theorem snappy_bounded blk out : raw_d_len ->
    snappy_decompress max_alloc raw_len raw_d crc blk = Ok out -> lenN out <= max_alloc.
  Proof.
    intros raw_dl. unfold snappy_decompress. destruct (lenN blk <? 4); [discriminate|].
    destruct (raw_len (firstn (length blk - 4) blk)) as [n| | |] eqn:El; cbn [bind]; try discriminate.
    destruct (max_alloc <? n) eqn:Em; [discriminate|].
    destruct (raw_d (firstn (length blk - 4) blk)) as [o| | |] eqn:Ed; cbn [bind]; try discriminate.
    destruct (of_be32 (skipn (length blk - 4) blk) =? crc o); [|discriminate]. intros H. injection H as <-.
    rewrite (raw_dl _ _ _ El Ed). lia.
  Qed.

  Theorem capped_bounded dec blk out : capped max_alloc dec blk = Ok out -> lenN out <= max_alloc.
  Proof.
    unfold capped. destruct (dec blk) as [o| | |]; cbn [bind]; try discriminate.
    destruct (max_alloc <? lenN o) eqn:E; [discriminate|]. intros H. injection H as <-. lia.
  Qed.

  Theorem capped_roundtrip (cmp : bytes -> bytes) dec d :
    dec (cmp d) = Ok d -> lenN d <= max_alloc -> capped max_alloc dec (cmp d) = Ok d.
  Proof. intros H Hd. unfold capped. rewrite H. cbn [bind]. assert (E : (max_alloc <? lenN d) = false) by lia. rewrite E. reflexivity. Qed.
End Laws.
