(* Lemmas for C09: the model of SchemaCompatibility::can_read / mutual_read. *)
From AvroV Require Import Base Varint Schema Bytes Names Floats Codec Conforms SingleObject Compat BytesP.
From Coq Require Import ZifyN ZifyBool ZifyNat.
Open Scope N_scope.

(* can_read never produces Panic, it only passes one on *)
Lemma scan_readers_no_panic cr l : (forall b, cr b <> Panic) -> forall full part, scan_readers cr l full part <> Panic.
Proof.
  intros H. induction l as [|rb r IH]; intros full part; cbn [scan_readers]; [discriminate|].
  destruct (cr rb) as [[|]| | |] eqn:E; try apply IH; try discriminate. exfalso. exact (H rb E).
Qed.
Lemma verdict_no_panic a b : verdict a b <> Panic.
Proof. unfold verdict. destruct a; [discriminate|]. destruct b; discriminate. Qed.
Lemma union_union_no_panic per l : (forall b, per b <> Panic) -> forall all any, union_union per l all any <> Panic.
Proof.
  intros H. induction l as [|wb r IH]; intros all any; cbn [union_union]; [apply verdict_no_panic|].
  destruct (per wb) as [fp| | |] eqn:E; cbn [bind]; try discriminate; [apply IH|]. exfalso. exact (H wb E).
Qed.
Lemma union_writer_no_panic cr l : (forall b, cr b <> Panic) -> forall all any, union_writer cr l all any <> Panic.
Proof.
  intros H. induction l as [|wb r IH]; intros all any; cbn [union_writer]; [apply verdict_no_panic|].
  destruct (cr wb) as [[|]| | |] eqn:E; try apply IH; try discriminate. exfalso. exact (H wb E).
Qed.
Lemma union_reader_no_panic cr l : (forall b, cr b <> Panic) -> forall full part, union_reader cr l full part <> Panic.
Proof.
  intros H. induction l as [|rb r IH]; intros full part; cbn [union_reader]; [apply verdict_no_panic|].
  destruct (cr rb) as [[|]| | |] eqn:E; try apply IH; try discriminate. exfalso. exact (H rb E).
Qed.
Lemma record_fields_no_panic cr wfs l : (forall a b, cr a b <> Panic) -> forall acc, record_fields cr wfs l acc <> Panic.
Proof.
  intros H. induction l as [|[m rs] r IH]; intros acc; cbn [record_fields]; [discriminate|].
  destruct (wfield_for (f_name m :: f_aliases m) wfs) as [ws|].
  - destruct (cr ws rs) as [c| | |] eqn:E; try apply IH; try discriminate. exfalso. exact (H _ _ E).
  - destruct (f_default m); [apply IH|discriminate].
Qed.
Lemma leaf_compat_no_panic W R : leaf_compat W R <> Panic.
Proof.
  unfold leaf_compat.
  repeat match goal with |- context [if ?b then _ else _] => destruct b; try discriminate end.
  destruct W; destruct R; try discriminate;
    repeat match goal with
           | |- context [match ?x with _ => _ end] => destruct x; try discriminate
           end.
Qed.

Lemma can_read_no_panic fuel : forall W R, can_read fuel W R <> Panic.
Proof.
  induction fuel as [|f IH]; intros W R; cbn [can_read]; [discriminate|].
  destruct (name_clash W R); [discriminate|].
  assert (Hu : forall wbs rbs, union_union (fun wb => scan_readers (can_read f wb) rbs false false) wbs true false <> Panic).
  { intros wbs rbs. apply union_union_no_panic. intros b. apply scan_readers_no_panic. intros b'. apply IH. }
  assert (Hw : forall wbs, union_writer (fun wb => can_read f wb R) wbs true false <> Panic).
  { intros wbs. apply union_writer_no_panic. intros b. apply IH. }
  assert (Hr : forall rbs, union_reader (can_read f W) rbs false false <> Panic).
  { intros rbs. apply union_reader_no_panic. intros b. apply IH. }
  assert (Hf : forall wfs rfs, record_fields (can_read f) wfs rfs CFull <> Panic).
  { intros wfs rfs. apply record_fields_no_panic. intros a b. apply IH. }
  pose proof (leaf_compat_no_panic W R) as Hl.
  destruct W; destruct R; try apply Hu; try apply Hw; try apply Hr; try apply Hf; try apply IH; try exact Hl;
    try discriminate.
  all: repeat match goal with
              | |- context [if ?b then _ else _] => destruct b; try discriminate
              | |- context [match ?x with _ => _ end] => destruct x; try discriminate
              end.
Qed.

(* mutual compatibility is symmetric *)
Lemma cand_comm a b : cand a b = cand b a.
Proof. destruct a, b; reflexivity. Qed.

Lemma mutual_symmetric_ok fuel A B c : mutual_read fuel A B = Ok c -> mutual_read fuel B A = Ok c.
Proof.
  unfold mutual_read. intros H.
  destruct (can_read fuel A B) as [c1| | |]; cbn [bind] in H; try discriminate H.
  destruct (can_read fuel B A) as [c2| | |]; cbn [bind] in H |- *; try discriminate H.
  injection H as <-. rewrite cand_comm. reflexivity.
Qed.

Lemma mutual_symmetric_err fuel A B :
  mutual_read fuel A B = Err -> mutual_read fuel B A = Err \/ mutual_read fuel B A = OutOfFuel.
Proof.
  unfold mutual_read. intros H.
  pose proof (can_read_no_panic fuel A B) as P1. pose proof (can_read_no_panic fuel B A) as P2.
  destruct (can_read fuel A B) as [c1| | |]; destruct (can_read fuel B A) as [c2| | |]; cbn [bind] in H |- *;
    try discriminate H; try contradiction; auto.
Qed.

(* every well-formed schema is fully compatible with itself *)
Lemma name_clash_self s : name_clash s s = false.
Proof. unfold name_clash. destruct (schema_name s); [|reflexivity]. rewrite bytes_eqb_refl. reflexivity. Qed.

Definition done (r : res compat) : Prop := r = Ok CFull \/ r = OutOfFuel.

Lemma wfield_named_first n wfs m s :
  wfield_named n ((m, s) :: wfs) = if bytes_eqb (f_name m) n then Some s else wfield_named n wfs.
Proof. reflexivity. Qed.

(* the reader field (m, s), looked up among the writer fields of the same list, is itself *)
Lemma wfield_named_self fs : forall m s,
  NoDup (map (fun ms : fmeta * schema => f_name (fst ms)) fs) -> In (m, s) fs ->
  wfield_named (f_name m) fs = Some s.
Proof.
  induction fs as [|[m0 s0] r IH]; intros m s Hnd Hin; [destruct Hin|].
  cbn [map fst] in Hnd. apply NoDup_cons_iff in Hnd. destruct Hnd as [Hnot Hnd].
  cbn [wfield_named]. destruct Hin as [E|Hin].
  - injection E as <- <-. rewrite bytes_eqb_refl. reflexivity.
  - destruct (bytes_eqb (f_name m0) (f_name m)) eqn:E.
    + apply bytes_eqb_eq in E. exfalso. apply Hnot. rewrite E.
      apply (in_map (fun ms : fmeta * schema => f_name (fst ms)) r (m, s)). exact Hin.
    + apply IH; assumption.
Qed.

Lemma nodup_strs_NoDup l : nodup_strs l = true -> NoDup l.
Proof.
  induction l as [|a l IH]; cbn [nodup_strs]; intros H; [constructor|].
  apply andb_prop in H. destruct H as [H1 H2]. constructor; [|apply IH; exact H2].
  intros Hin. apply negb_true_iff in H1.
  assert (E : existsb (bytes_eqb a) l = true).
  { apply existsb_exists. exists a. split; [exact Hin|apply bytes_eqb_refl]. }
  rewrite E in H1. discriminate H1.
Qed.

Lemma record_fields_self cr fs0 : forall l acc,
  NoDup (map (fun ms : fmeta * schema => f_name (fst ms)) fs0) ->
  (forall m s, In (m, s) l -> In (m, s) fs0) ->
  (forall m s, In (m, s) l -> done (cr s s)) ->
  acc = CFull -> done (record_fields cr fs0 l acc).
Proof.
  induction l as [|[m s] r IH]; intros acc Hnd Hsub Hcr Hacc; cbn [record_fields]; [left; rewrite Hacc; reflexivity|].
  cbn [wfield_for]. rewrite (wfield_named_self fs0 m s Hnd (Hsub m s (or_introl eq_refl))).
  destruct (Hcr m s (or_introl eq_refl)) as [E|E]; rewrite E; [|right; reflexivity].
  apply IH; try assumption.
  - intros m' s' H'. apply Hsub. right. exact H'.
  - intros m' s' H'. apply (Hcr m' s'). right. exact H'.
  - rewrite Hacc. reflexivity.
Qed.

(* scanning the reader branches for a writer branch that is one of them *)
Lemma scan_readers_done cr l : forall full part,
  (forall b, cr b <> Panic) ->
  (full = true \/ exists b, In b l /\ done (cr b)) ->
  (exists part', scan_readers cr l full part = Ok (true, part')) \/ scan_readers cr l full part = OutOfFuel.
Proof.
  induction l as [|rb r IH]; intros full part Hnp H; cbn [scan_readers].
  - destruct H as [->|(b & [] & _)]. left. exists part. reflexivity.
  - destruct (cr rb) as [[|]| | |] eqn:E.
    + apply IH; [exact Hnp|left; reflexivity].
    + apply IH; [exact Hnp|]. destruct H as [->|(b & [<-|Hin] & Hd)]; [left; reflexivity| |].
      * destruct Hd as [Hd|Hd]; rewrite E in Hd; discriminate Hd.
      * right. exists b. split; assumption.
    + apply IH; [exact Hnp|]. destruct H as [->|(b & [<-|Hin] & Hd)]; [left; reflexivity| |].
      * destruct Hd as [Hd|Hd]; rewrite E in Hd; discriminate Hd.
      * right. exists b. split; assumption.
    + exfalso. exact (Hnp rb E).
    + right. reflexivity.
Qed.

Lemma union_union_done per : forall l all any,
  all = true ->
  (forall wb, In wb l -> (exists part', per wb = Ok (true, part')) \/ per wb = OutOfFuel) ->
  done (union_union per l all any).
Proof.
  induction l as [|wb r IH]; intros all any Hall H; cbn [union_union].
  - left. unfold verdict. rewrite Hall. reflexivity.
  - destruct (H wb (or_introl eq_refl)) as [(p' & E)|E]; rewrite E; cbn [bind]; [|right; reflexivity].
    apply IH; [rewrite Hall; reflexivity|]. intros wb' H'. apply H. right. exact H'.
Qed.

Theorem can_read_reflexive fuel : forall s, schema_wfb s = true -> done (can_read fuel s s).
Proof.
  induction fuel as [|f IH]; intros s Hwf; cbn [can_read]; [right; reflexivity|].
  rewrite name_clash_self.
  destruct s; try (left; reflexivity).
  - (* array *) apply IH. exact Hwf.
  - (* map *) apply IH. exact Hwf.
  - (* union *)
    cbn [schema_wfb] in Hwf. apply andb_prop in Hwf. destruct Hwf as [_ Hall].
    apply union_union_done; [reflexivity|]. intros wb Hin.
    apply scan_readers_done; [intros b; apply can_read_no_panic|].
    right. exists wb. split; [exact Hin|]. apply IH.
    rewrite forallb_forall in Hall. apply Hall. exact Hin.
  - (* record *)
    cbn [schema_wfb] in Hwf. apply andb_prop in Hwf. destruct Hwf as [Hnd Hall].
    apply record_fields_self; [apply nodup_strs_NoDup; exact Hnd|auto| |reflexivity].
    intros m s Hin. apply IH. rewrite forallb_forall in Hall. apply (Hall (m, s) Hin).
  - (* enum *)
    destruct default; [left; reflexivity|].
    assert (E : forallb (fun b : bool => b) (map (fun s => existsb (bytes_eqb s) symbols) symbols) = true).
    { apply forallb_forall. intros b Hb. apply in_map_iff in Hb. destruct Hb as (s & <- & Hs).
      apply existsb_exists. exists s. split; [exact Hs|apply bytes_eqb_refl]. }
    rewrite E. left. reflexivity.
  - (* fixed *) left. unfold leaf_compat. cbn. rewrite N.eqb_refl. reflexivity.
  - (* decimal *) left. rewrite !N.eqb_refl. reflexivity.
  - (* uuid *) left. unfold leaf_compat. destruct u; reflexivity.
  - (* duration *) left. unfold leaf_compat. cbn. rewrite N.eqb_refl. reflexivity.
  - (* ref *) left. assert (E : name_eqb n n = true).
    { unfold name_eqb. rewrite bytes_eqb_refl. destruct (ns n); cbn; rewrite ?bytes_eqb_refl; reflexivity. }
    rewrite E. reflexivity.
Qed.

(* always-safe steps on records: a reader field added with a default, a reader field removed *)
Lemma record_fields_add_defaulted cr wfs m rs d : forall l acc,
  wfield_for (f_name m :: f_aliases m) wfs = None -> f_default m = Some d ->
  record_fields cr wfs (l ++ [(m, rs)]) acc = record_fields cr wfs l acc.
Proof.
  intros l acc Hw Hd. revert acc. induction l as [|[m0 s0] r IH]; intros acc; cbn [app record_fields].
  - rewrite Hw, Hd. reflexivity.
  - destruct (wfield_for (f_name m0 :: f_aliases m0) wfs) as [ws|].
    + destruct (cr ws s0); try reflexivity. apply IH.
    + destruct (f_default m0); [apply IH|reflexivity].
Qed.

Lemma record_fields_ok_any_acc cr wfs : forall l acc acc' c,
  record_fields cr wfs l acc = Ok c -> exists c', record_fields cr wfs l acc' = Ok c'.
Proof.
  induction l as [|[m0 s0] r IH]; intros acc acc' c H; cbn [record_fields] in H |- *; [eexists; reflexivity|].
  destruct (wfield_for (f_name m0 :: f_aliases m0) wfs) as [ws|].
  - destruct (cr ws s0); try discriminate H. eapply IH; exact H.
  - destruct (f_default m0); [eapply IH; exact H|discriminate H].
Qed.

Lemma record_fields_remove cr wfs x : forall l1 l2 acc c,
  record_fields cr wfs (l1 ++ x :: l2) acc = Ok c -> exists c', record_fields cr wfs (l1 ++ l2) acc = Ok c'.
Proof.
  induction l1 as [|[m0 s0] r IH]; intros l2 acc c H; cbn [app record_fields] in H |- *.
  - destruct x as [m rs].
    destruct (wfield_for (f_name m :: f_aliases m) wfs) as [ws|].
    + destruct (cr ws rs); try discriminate H. eapply record_fields_ok_any_acc; exact H.
    + destruct (f_default m); [eexists; exact H|discriminate H].
  - destruct (wfield_for (f_name m0 :: f_aliases m0) wfs) as [ws|].
    + destruct (cr ws s0); try discriminate H. eapply IH; exact H.
    + destruct (f_default m0); [eapply IH; exact H|discriminate H].
Qed.

(* a reader union branch added: a full verdict stays full *)
Lemma union_reader_full_sticky cr : forall l part, (forall b, cr b <> Panic) ->
  union_reader cr l true part = Ok CFull \/ union_reader cr l true part = OutOfFuel.
Proof.
  induction l as [|rb r IH]; intros part Hnp; cbn [union_reader]; [left; reflexivity|].
  destruct (cr rb) as [[|]| | |] eqn:E; try apply IH; try exact Hnp; [exfalso; exact (Hnp rb E)|right; reflexivity].
Qed.

Lemma union_reader_add_branch cr b : (forall x, cr x <> Panic) -> forall l full part,
  union_reader cr l full part = Ok CFull ->
  union_reader cr (l ++ [b]) full part = Ok CFull \/ union_reader cr (l ++ [b]) full part = OutOfFuel.
Proof.
  intros Hnp. induction l as [|rb r IH]; intros full part H; cbn [app union_reader] in H |- *.
  - unfold verdict in H. destruct full.
    + apply (union_reader_full_sticky cr [b] part Hnp).
    + destruct part; discriminate H.
  - destruct (cr rb) as [[|]| | |]; try discriminate H; apply IH; exact H.
Qed.
