(* The table-driven Rabin fingerprint equals the bitwise CRC-64-AVRO, for every byte string. *)
From AvroV Require Import Base Varint Rabin CRC64.
Open Scope N_scope.

Lemma st_shift1 r : st r = shift1 r.
Proof. unfold st, shift1, EMPTY, POLY. destruct (N.testbit r 0); [reflexivity|apply N.lxor_0_r]. Qed.

(* st is linear over xor *)
Lemma st_lxor x y : st (N.lxor x y) = N.lxor (st x) (st y).
Proof.
  unfold st. rewrite N.shiftr_lxor, N.lxor_spec.
  destruct (N.testbit x 0), (N.testbit y 0); cbn [xorb].
  - (* both odd: E ^ E = 0 *)
    rewrite N.lxor_0_r.
    rewrite (N.lxor_assoc (N.shiftr x 1) EMPTY), <- (N.lxor_assoc EMPTY (N.shiftr y 1) EMPTY).
    rewrite (N.lxor_comm EMPTY (N.shiftr y 1)), (N.lxor_assoc (N.shiftr y 1) EMPTY EMPTY).
    rewrite N.lxor_nilpotent, N.lxor_0_r. reflexivity.
  - rewrite N.lxor_0_r. rewrite !N.lxor_assoc. f_equal. apply N.lxor_comm.
  - rewrite N.lxor_0_r. rewrite !N.lxor_assoc. reflexivity.
  - rewrite !N.lxor_0_r. reflexivity.
Qed.

Lemma iter_st_lxor n x y : iter_st n (N.lxor x y) = N.lxor (iter_st n x) (iter_st n y).
Proof. revert x y. induction n as [|n IH]; intros x y; cbn [iter_st]; [reflexivity|]. rewrite st_lxor. apply IH. Qed.

(* shifting a register whose k low bits are zero: no polynomial is ever xored in *)
Lemma iter_st_high n x : iter_st n (N.shiftl x (N.of_nat n)) = x.
Proof.
  revert x. induction n as [|n IH]; intros x; cbn [iter_st].
  - cbn. apply N.shiftl_0_r.
  - unfold st.
    assert (Hb : N.testbit (N.shiftl x (N.of_nat (S n))) 0 = false).
    { apply N.shiftl_spec_low. lia. }
    rewrite Hb, N.lxor_0_r.
    replace (N.of_nat (S n)) with (N.of_nat n + 1) by lia.
    rewrite <- N.shiftl_shiftl, N.shiftr_shiftl_l by lia.
    replace (1 - 1) with 0 by lia. rewrite N.shiftl_0_r. apply IH.
Qed.

Lemma split_low8 x : x = N.lxor (N.shiftl (N.shiftr x 8) 8) (N.land x 255).
Proof.
  apply N.bits_inj. intros k. rewrite N.lxor_spec.
  change 255 with (N.ones 8).
  destruct (N.lt_ge_cases k 8) as [Hk|Hk].
  - rewrite N.shiftl_spec_low by exact Hk. rewrite N.land_spec, N.ones_spec_low by exact Hk.
    rewrite andb_true_r. destruct (N.testbit x k); reflexivity.
  - rewrite N.shiftl_spec_high' by exact Hk. rewrite N.shiftr_spec'.
    rewrite N.land_spec, N.ones_spec_high by exact Hk. rewrite andb_false_r, xorb_false_r.
    f_equal. lia.
Qed.

Lemma shiftr8_byte b : b < 256 -> N.shiftr b 8 = 0.
Proof.
  intros H. destruct (N.eq_dec b 0) as [->|Hn]; [reflexivity|].
  apply N.shiftr_eq_0. apply N.log2_lt_pow2; [lia|exact H].
Qed.

Lemma rabin_step_bitwise r b : b < 256 -> rabin_step r b = iter_st 8 (N.lxor r b).
Proof.
  intros Hb. unfold rabin_step, fp_table.
  rewrite (split_low8 (N.lxor r b)) at 2. rewrite iter_st_lxor.
  change 8 with (N.of_nat 8) at 3. rewrite iter_st_high.
  rewrite N.shiftr_lxor, (shiftr8_byte b Hb), N.lxor_0_r. reflexivity.
Qed.

Lemma iter_st_8 x : iter_st 8 x = crc_byte x 0.
Proof. unfold crc_byte. rewrite N.lxor_0_r. cbn [iter_st]. rewrite !st_shift1. reflexivity. Qed.

Lemma rabin_step_crc r b : b < 256 -> rabin_step r b = crc_byte r b.
Proof.
  intros Hb. rewrite rabin_step_bitwise by exact Hb. rewrite iter_st_8.
  unfold crc_byte. rewrite N.lxor_0_r. reflexivity.
Qed.

Theorem rabin_is_crc64 bs : all_bytes bs = true -> rabin bs = crc64_avro bs.
Proof.
  unfold rabin, crc64_avro. change POLY with EMPTY. generalize EMPTY as r.
  induction bs as [|b bs IH]; intros r H; cbn [fold_left]; [reflexivity|].
  cbn [all_bytes] in H. apply andb_true_iff in H as [Hb Hr]. apply N.ltb_lt in Hb.
  rewrite rabin_step_crc by exact Hb. apply IH. exact Hr.
Qed.
