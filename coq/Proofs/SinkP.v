(* write_all over any sink script: all of the buffer, or an error with a prefix delivered. *)
From AvroV Require Import Base Sink.
From Coq Require Import ZifyN ZifyBool ZifyNat.
Open Scope N_scope.

Lemma accept_len_pos n buf : buf <> [] -> (1 <= accept_len n buf <= length buf)%nat.
Proof. intros H. unfold accept_len. destruct buf; [congruence|cbn [length]]. lia. Qed.

Lemma firstn_skipn_app {A} k (l : list A) : firstn k l ++ skipn k l = l.
Proof. apply firstn_skipn. Qed.

Lemma write_all_spec : forall fuel s buf,
  (length buf + length (sk_script s) < fuel)%nat ->
  let '(ok, s') := write_all fuel s buf in
  exists taken,
    sk_data s' = sk_data s ++ taken /\
    (ok = true -> taken = buf) /\
    (ok = false -> exists rest, buf = taken ++ rest /\ rest <> []).
Proof.
  induction fuel as [|f IH]; intros s buf Hf; [lia|].
  destruct buf as [|b0 buf'].
  - cbn [write_all]. exists []. rewrite app_nil_r. split; [reflexivity|]. split; [intros; reflexivity|discriminate].
  - set (buf := b0 :: buf') in *.
    assert (Hne : buf <> []) by (subst buf; discriminate).
    cbn [write_all]. fold buf. unfold sink_write.
    destruct (sk_script s) as [|[n| |] r] eqn:Es; cbn [length] in Hf.
    + (* default accept *)
      pose proof (accept_len_pos (sk_default s) buf Hne) as [Hk1 Hk2].
      set (k := accept_len (sk_default s) buf) in *.
      specialize (IH (mkSink [] (sk_default s) (sk_data s ++ firstn k buf) (sk_calls s + 1)) (skipn k buf)).
      cbn [sk_script sk_data length] in IH.
      assert (Hlen : (length (skipn k buf) + 0 < f)%nat) by (rewrite skipn_length; lia).
      specialize (IH Hlen).
      destruct (write_all f _ (skipn k buf)) as [ok s'] eqn:Ew.
      destruct IH as (taken & Hd & Hok & Herr).
      exists (firstn k buf ++ taken). split; [rewrite Hd, app_assoc; reflexivity|]. split.
      * intros E. rewrite (Hok E). apply firstn_skipn.
      * intros E. destruct (Herr E) as (rest & Hr & Hne'). exists rest. split; [|exact Hne'].
        rewrite <- app_assoc, <- Hr. symmetry. apply firstn_skipn.
    + (* scripted accept *)
      pose proof (accept_len_pos n buf Hne) as [Hk1 Hk2].
      set (k := accept_len n buf) in *.
      specialize (IH (mkSink r (sk_default s) (sk_data s ++ firstn k buf) (sk_calls s + 1)) (skipn k buf)).
      cbn [sk_script sk_data] in IH.
      assert (Hlen : (length (skipn k buf) + length r < f)%nat) by (rewrite skipn_length; lia).
      specialize (IH Hlen).
      destruct (write_all f _ (skipn k buf)) as [ok s'] eqn:Ew.
      destruct IH as (taken & Hd & Hok & Herr).
      exists (firstn k buf ++ taken). split; [rewrite Hd, app_assoc; reflexivity|]. split.
      * intros E. rewrite (Hok E). apply firstn_skipn.
      * intros E. destruct (Herr E) as (rest & Hr & Hne'). exists rest. split; [|exact Hne'].
        rewrite <- app_assoc, <- Hr. symmetry. apply firstn_skipn.
    + (* failure *)
      exists []. cbn [sk_data]. rewrite app_nil_r. split; [reflexivity|]. split; [discriminate|].
      intros _. exists buf. split; [reflexivity|exact Hne].
    + (* interrupted: retried with the same buffer *)
      specialize (IH (mkSink r (sk_default s) (sk_data s) (sk_calls s + 1)) buf).
      cbn [sk_script sk_data] in IH.
      assert (Hlen : (length buf + length r < f)%nat) by lia. specialize (IH Hlen).
      destruct (write_all f _ buf) as [ok s'] eqn:Ew. exact IH.
Qed.

(* the whole operation: every piece, in order, or an error after a strict prefix *)
Theorem write_pieces_spec : forall ps s,
  let '(ok, s') := write_pieces s ps in
  exists taken,
    sk_data s' = sk_data s ++ taken /\
    (ok = true -> taken = concat ps) /\
    (ok = false -> exists rest, concat ps = taken ++ rest /\ rest <> []).
Proof.
  induction ps as [|p ps IH]; intros s.
  - cbn [write_pieces]. exists []. rewrite app_nil_r. split; [reflexivity|]. split; [intros; reflexivity|discriminate].
  - cbn [write_pieces concat].
    pose proof (write_all_spec (wa_fuel s p) s p ltac:(unfold wa_fuel; lia)) as Hw.
    destruct (write_all (wa_fuel s p) s p) as [[|] s1] eqn:Ew.
    + destruct Hw as (t1 & Hd1 & Hok1 & _). specialize (Hok1 eq_refl). subst t1.
      specialize (IH s1). destruct (write_pieces s1 ps) as [ok s2] eqn:Ep.
      destruct IH as (t2 & Hd2 & Hok2 & Herr2).
      exists (p ++ t2). split; [rewrite Hd2, Hd1, app_assoc; reflexivity|]. split.
      * intros E. rewrite (Hok2 E). reflexivity.
      * intros E. destruct (Herr2 E) as (rest & Hr & Hne). exists rest. split; [|exact Hne].
        rewrite Hr, app_assoc. reflexivity.
    + destruct Hw as (t1 & Hd1 & _ & Herr1). destruct (Herr1 eq_refl) as (rest & Hr & Hne).
      exists t1. split; [exact Hd1|]. split; [discriminate|].
      intros _. exists (rest ++ concat ps). split; [rewrite Hr, app_assoc; reflexivity|].
      intros E. apply app_eq_nil in E as [E _]. contradiction.
Qed.

(* ---- the reusable single-object writer ---- *)
Definition so_call_ok (h : bytes) (payload : option bytes) (out : option nat * bytes) : Prop :=
  match fst out with
  | Some n => exists p, payload = Some p /\ snd out = h ++ p /\ n = length (h ++ p)
  | None => (payload = None /\ snd out = []) \/
            (exists p rest, payload = Some p /\ h ++ p = snd out ++ rest /\ rest <> [])
  end.

Lemma skipn_app_exact {A} (a b : list A) : skipn (length a) (a ++ b) = b.
Proof. induction a as [|x a IH]; [reflexivity|exact IH]. Qed.

Lemma firstn_app_exact {A} (a b : list A) : firstn (length a) (a ++ b) = a.
Proof. induction a as [|x a IH]; [reflexivity|cbn [length app firstn]; rewrite IH; reflexivity]. Qed.

Lemma sow_write_spec h s payload :
  so_guard h = true ->
  let '(res, h', s') := sow_write h s payload in
  h' = h /\ exists taken, sk_data s' = sk_data s ++ taken /\ so_call_ok h payload (res, taken).
Proof.
  intros Hg. unfold sow_write. rewrite Hg. destruct payload as [p|].
  - pose proof (write_all_spec (wa_fuel s (h ++ p)) s (h ++ p) ltac:(unfold wa_fuel; lia)) as Hw.
    destruct (write_all (wa_fuel s (h ++ p)) s (h ++ p)) as [[|] s1] eqn:Ew;
      destruct Hw as (t & Hd & Hok & Herr); (split; [apply firstn_app_exact|]); exists t; (split; [exact Hd|]).
    + unfold so_call_ok. cbn [fst snd]. exists p. rewrite (Hok eq_refl). repeat split; reflexivity.
    + unfold so_call_ok. cbn [fst snd]. right. destruct (Herr eq_refl) as (rest & Hr & Hne).
      exists p, rest. repeat split; assumption.
  - split; [reflexivity|]. exists []. rewrite app_nil_r. split; [reflexivity|]. left. split; reflexivity.
Qed.

(* every history on one writer: the buffer is the header again after every call, and every call
   either reports the length of header ++ payload having delivered exactly that, or reports an
   error having delivered a strict prefix of it; the sink holds the deliveries in order *)
Theorem sow_run_spec : forall ops h s,
  so_guard h = true ->
  let '(outs, h', s') := sow_run h s ops in
  h' = h /\ sk_data s' = sk_data s ++ concat (map snd outs) /\ Forall2 (so_call_ok h) ops outs.
Proof.
  induction ops as [|p ops IH]; intros h s Hg.
  - cbn [sow_run map concat]. rewrite app_nil_r. repeat split. constructor.
  - cbn [sow_run]. pose proof (sow_write_spec h s p Hg) as Hw.
    destruct (sow_write h s p) as [[res h1] s1] eqn:Ew. destruct Hw as (Hh & t & Hd & Hc). subst h1.
    specialize (IH h s1 Hg). destruct (sow_run h s1 ops) as [[outs hn] sn] eqn:Er.
    destruct IH as (Hhn & Hdn & Hall).
    rewrite Hd, skipn_app_exact. split; [exact Hhn|]. split.
    + cbn [map snd concat]. rewrite Hdn, Hd, app_assoc. reflexivity.
    + constructor; [exact Hc|exact Hall].
Qed.
