(* Padding invariance of the datum decoder at the head position of every schema whose encoding starts
   with a variable-length integer (number, length, symbol index, branch index). *)
From AvroV Require Import Base Varint Schema Bytes Names Codec.
From AvroV Require Import VarintP PaddedP.
Open Scope N_scope.

Definition varint_headed (s : schema) : bool :=
  match s with
  | SInt | SDate | STimeMillis | SLong | STimeMicros | STimestampMillis | STimestampMicros | STimestampNanos
  | SLocalTimestampMillis | SLocalTimestampMicros | SLocalTimestampNanos
  | SBytes | SString | SBigDecimal | SDecimal _ _ DBytes | SUuid UString | SUuid UBytes
  | SUnion _ | SEnum _ _ _ _ _ _ => true
  | _ => false
  end.

Lemma int_padding_invariant p b k rest :
  Forall cont p -> b < 128 -> (length p + k + 2 <= 10)%nat ->
  dec_int (p ++ padding b k ++ rest) = dec_int (p ++ b :: rest).
Proof. intros Hp Hb Hl. unfold dec_int. rewrite long_padding_invariant by assumption. reflexivity. Qed.

Theorem decode_head_padding_invariant c nmz ens s f p b k rest :
  varint_headed s = true -> Forall cont p -> b < 128 -> (length p + k + 2 <= 10)%nat ->
  decode (S f) c nmz ens s (p ++ padding b k ++ rest) = decode (S f) c nmz ens s (p ++ b :: rest).
Proof.
  intros Hs Hp Hb Hl.
  destruct s; try discriminate Hs;
    try (match goal with d : dec_inner |- _ => destruct d; try discriminate Hs end);
    try (match goal with u : uuid_inner |- _ => destruct u; try discriminate Hs end);
    cbn [decode]; unfold dec_string, dec_bytes, dec_len;
    rewrite ?int_padding_invariant by assumption; rewrite ?long_padding_invariant by assumption; reflexivity.
Qed.
