(* The model encoder produces specification-legal bytes; the model decoder accepts every
   specification-legal layout (any block partition, negative counts with byte sizes). *)
From AvroV Require Import Base Varint Schema Bytes Names Codec Conforms BinEnc.
From AvroV Require Import VarintP BytesP CodecP.
From Coq Require Import ZifyN ZifyBool ZifyNat.
Open Scope N_scope.
Ltac Zify.zify_post_hook ::= Z.div_mod_to_equations.

(* ---- varints ---- *)
Lemma zz_zig z : zz z = zig z.
Proof. reflexivity. Qed.

Lemma vint_enc_var : forall f n, (N.to_nat (N.log2 n / 7) < f)%nat -> vint n (enc_var f n).
Proof.
  induction f as [|f IH]; intros n Hf; [lia|].
  cbn [enc_var]. destruct (n <=? 127) eqn:E.
  - apply N.leb_le in E. rewrite N.mod_small by lia. apply vint_last. lia.
  - apply N.leb_gt in E. apply vint_more; [lia|]. apply IH.
    assert (N.log2 (n / 128) = N.log2 n - 7).
    { change 128 with (2^7). rewrite <- N.shiftr_div_pow2. apply N.log2_shiftr. }
    assert (7 <= N.log2 n) by (change 7 with (N.log2 128); apply N.log2_le_mono; lia).
    assert ((N.log2 n - 7) / 7 = N.log2 n / 7 - 1).
    { replace (N.log2 n) with ((N.log2 n - 7) + 1 * 7) at 2 by lia. rewrite N.div_add by lia. lia. }
    assert (1 <= N.log2 n / 7) by (apply N.div_le_lower_bound; lia).
    lia.
Qed.

Lemma vint_unique : forall n a b, vint n a -> vint n b -> a = b.
Proof.
  intros n a b Ha. revert b. induction Ha as [n Hn|n r Hn Hr IH]; intros b Hb; inversion Hb; subst; try lia.
  - reflexivity.
  - f_equal. apply IH. assumption.
Qed.

Lemma slong_enc z : in_i64 z = true -> slong z (enc_long z).
Proof.
  intros H. apply in_i64_spec in H as H'. split; [exact H'|]. unfold enc_long. rewrite zz_zig.
  apply vint_enc_var. pose proof (zig_bound z H) as Hb.
  assert (N.log2 (zig z) < 64) by (destruct (N.eq_dec (zig z) 0) as [->|]; [cbn; lia|apply N.log2_lt_pow2; lia]).
  assert (N.log2 (zig z) / 7 <= 9) by (apply N.div_le_upper_bound; lia). lia.
Qed.

Lemma slong_is_enc z bs : slong z bs -> bs = enc_long z /\ in_i64 z = true.
Proof.
  intros [Hr Hv]. assert (Hi : in_i64 z = true) by (apply in_i64_spec; exact Hr). split; [|exact Hi].
  eapply vint_unique; [exact Hv|]. apply (slong_enc z Hi).
Qed.

Lemma sint_is_enc z bs : sint z bs -> bs = enc_long z /\ in_i32 z = true.
Proof.
  intros [Hr Hv]. assert (Hi : in_i32 z = true) by (apply in_i32_spec; exact Hr). split; [|exact Hi].
  eapply vint_unique; [exact Hv|]. apply (slong_enc z (in_i32_i64 z Hi)).
Qed.

Lemma sint_enc z : in_i32 z = true -> sint z (enc_long z).
Proof. intros H. split; [apply in_i32_spec; exact H|]. apply (slong_enc z (in_i32_i64 z H)). Qed.

Lemma sbytes_enc b : lenN b < 2 ^ 63 -> sbytes b (enc_bytes b).
Proof. intros H. exists (enc_long (Z.of_N (lenN b))). split; [apply slong_enc; apply in_i64_spec; lia|reflexivity]. Qed.

Lemma sbytes_is_enc b bs : sbytes b bs -> bs = enc_bytes b /\ lenN b < 2 ^ 63.
Proof.
  intros (lb & Hl & ->). apply slong_is_enc in Hl as [-> Hi]. apply in_i64_spec in Hi.
  split; [reflexivity|lia].
Qed.

(* ---------------- list-level lemmas ---------------- *)
Lemma enc_list_items {A} (e : A -> res bytes) (elem : A -> bytes -> Prop) :
  forall l b, (forall x a, In x l -> e x = Ok a -> elem x a) -> enc_list e l = Ok b -> items elem l b.
Proof.
  induction l as [|x xs IH]; intros b Hx He; cbn [enc_list] in He.
  - inversion He; subst. constructor.
  - destruct (e x) as [a| | |] eqn:Ea; cbn [bind] in He; try discriminate.
    destruct (enc_list e xs) as [b'| | |] eqn:Eb; cbn [bind] in He; try discriminate.
    inversion He; subst. constructor; [apply Hx; [left; reflexivity|exact Ea]|].
    apply IH; [|reflexivity]. intros y a0 Hy. apply Hx. right. exact Hy.
Qed.

Lemma items_decode {A} (elem : A -> bytes -> Prop) (d : bytes -> res (A * bytes)) :
  forall l b, items elem l b ->
    (forall x a, In x l -> elem x a -> forall r, d (a ++ r) = Ok (x, r)) ->
    forall rest, dec_items d (length l) (b ++ rest) = Ok (l, rest).
Proof.
  induction 1 as [|x xs a b Hx Hxs IH]; intros Hd rest; [reflexivity|].
  cbn [length dec_items]. rewrite <- app_assoc, (Hd x a (or_introl eq_refl) Hx). cbn [bind].
  rewrite IH; [reflexivity|]. intros y a0 Hy. apply Hd. right. exact Hy.
Qed.

Lemma items_length_pos {A} (elem : A -> bytes -> Prop) l b : items elem l b -> True.
Proof. trivial. Qed.

Lemma safe_coll_le c esize n m : m <= n -> safe_coll c esize n = true -> safe_coll c esize m = true.
Proof.
  unfold safe_coll. intros Hm H. apply andb_true_iff in H as [H1 H2]. apply N.leb_le in H1, H2.
  apply andb_true_iff. split; apply N.leb_le; nia.
Qed.

Lemma len_ok_le c n m : m <= n -> len_ok c n = true -> len_ok c m = true.
Proof.
  unfold len_ok. intros Hm H. apply andb_true_iff in H as [H1 H2]. apply N.leb_le in H1. apply N.ltb_lt in H2.
  apply andb_true_iff. split; [apply N.leb_le|apply N.ltb_lt]; lia.
Qed.

(* the decoder's block loop accepts every legal block layout *)
Lemma blocks_decode {A} c esize (elem : A -> bytes -> Prop) (d : bytes -> res (A * bytes)) :
  forall l bs, blocks elem l bs ->
    (forall x a, In x l -> elem x a -> forall r, d (a ++ r) = Ok (x, r)) ->
    forall have g rest,
      len_ok c (have + lenN l) = true -> safe_coll c esize (have + lenN l) = true ->
      (length bs < g)%nat ->
      dec_blocks c esize d g have (bs ++ rest) = Ok (l, rest).
Proof.
  induction 1 as [|xs ys cb xb rb Hne Hc Hi Hb IH|xs ys cb sb xb rb Hne Hc Hs Hi Hb IH];
    intros Hd have g rest Hl Hsc Hg.
  - destruct g; [cbn in Hg; lia|]. reflexivity.
  - destruct g; [lia|]. apply slong_is_enc in Hc as [-> _].
    rewrite lenN_app in Hl, Hsc.
    assert (Hpos : 0 < lenN xs) by (destruct xs; [congruence|rewrite lenN_cons; lia]).
    assert (Hlx : len_ok c (lenN xs) = true) by (apply (len_ok_le c (have + (lenN xs + lenN ys))); [lia|exact Hl]).
    cbn [dec_blocks]. rewrite <- !app_assoc.
    rewrite seq_len_pos by assumption.
    cbn [bind]. assert (E0 : (lenN xs =? 0) = false) by (apply N.eqb_neq; lia). rewrite E0.
    rewrite (safe_coll_le c esize (have + (lenN xs + lenN ys)) (have + lenN xs)) by (try lia; exact Hsc).
    rewrite dec_count_spec. unfold lenN at 1. rewrite Nat2N.id.
    rewrite (items_decode elem d xs xb Hi); [|intros y a0 Hy; apply Hd; apply in_or_app; left; exact Hy].
    cbn [bind]. rewrite IH.
    + reflexivity.
    + intros y a0 Hy. apply Hd. apply in_or_app. right. exact Hy.
    + rewrite <- N.add_assoc. exact Hl.
    + rewrite <- N.add_assoc. exact Hsc.
    + rewrite !app_length in Hg. pose proof (enc_long_length_pos (Z.of_N (lenN xs))). lia.
  - destruct g; [lia|]. apply slong_is_enc in Hc as [-> Hci]. apply slong_is_enc in Hs as [-> Hsi].
    rewrite lenN_app in Hl, Hsc.
    assert (Hpos : 0 < lenN xs) by (destruct xs; [congruence|rewrite lenN_cons; lia]).
    assert (Hlx : len_ok c (lenN xs) = true) by (apply (len_ok_le c (have + (lenN xs + lenN ys))); [lia|exact Hl]).
    apply len_ok_spec in Hlx as [Hx1 Hx2].
    cbn [dec_blocks]. rewrite <- !app_assoc.
    unfold dec_seq_len. rewrite long_roundtrip by exact Hci.
    assert (E0 : (- Z.of_N (lenN xs) =? 0)%Z = false) by lia.
    assert (E1 : (- Z.of_N (lenN xs) <? 0)%Z = true) by lia. rewrite E0, E1.
    rewrite long_roundtrip by exact Hsi.
    assert (E2 : (- Z.of_N (lenN xs) =? - 2 ^ 63)%Z = false) by lia. rewrite E2.
    unfold safe_len. replace (Z.to_N (- - Z.of_N (lenN xs))) with (lenN xs) by lia.
    assert (E3 : (lenN xs <=? max_alloc c) = true) by (apply N.leb_le; exact Hx1). rewrite E3.
    cbn [bind]. assert (E4 : (lenN xs =? 0) = false) by (apply N.eqb_neq; lia). rewrite E4.
    rewrite (safe_coll_le c esize (have + (lenN xs + lenN ys)) (have + lenN xs)) by (try lia; exact Hsc).
    rewrite dec_count_spec. unfold lenN at 1. rewrite Nat2N.id.
    rewrite (items_decode elem d xs xb Hi); [|intros y a0 Hy; apply Hd; apply in_or_app; left; exact Hy].
    cbn [bind]. rewrite IH.
    + reflexivity.
    + intros y a0 Hy. apply Hd. apply in_or_app. right. exact Hy.
    + rewrite <- N.add_assoc. exact Hl.
    + rewrite <- N.add_assoc. exact Hsc.
    + rewrite !app_length in Hg. pose proof (enc_long_length_pos (- Z.of_N (lenN xs))). lia.
Qed.

Lemma sfields_decode (elem : schema -> value -> bytes -> Prop) (cf : schema -> value -> bool)
      (d : schema -> bytes -> res (value * bytes)) :
  (forall s v a, elem s v a -> cf s v = true -> forall r, d s (a ++ r) = Ok (v, r)) ->
  forall fs l b, sfields elem fs l b -> conf_fields cf fs l = true ->
  forall rest, dec_fields d fs (b ++ rest) = Ok (l, rest).
Proof.
  intros Hd. induction 1 as [|m s fs v l a b Hx Hxs IH]; intros Hc rest; [reflexivity|].
  cbn [conf_fields] in Hc. apply andb_true_iff in Hc as [Hc H3]. apply andb_true_iff in Hc as [_ H2].
  cbn [dec_fields]. rewrite <- app_assoc, (Hd s v a Hx H2). cbn [bind]. rewrite (IH H3). reflexivity.
Qed.

(* ---------------- Theorem: the decoder accepts every specification-legal encoding ---------------- *)
Theorem spec_decodes c nmz :
  forall fd s v ed bs, spec nmz ed s v bs -> conforms fd c nmz ed s v = true ->
    forall rest, decode fd c nmz ed s (bs ++ rest) = Ok (v, rest).
Proof.
  induction fd as [|f IH]; intros s v ed bs Hs Hc rest; [discriminate|].
  destruct s.
  28: { cbn [conforms] in Hc. inversion Hs as [| | | | | | | | | | | | | | | | | | | | | | | | | | | | | |? ? s' ? ? Hget Hsp]; subst.
        rewrite Hget in Hc. cbn [decode]. rewrite Hget. apply (IH s' v _ bs Hsp Hc). }
  all: try (destruct v; cbn [conforms] in Hc; try discriminate Hc).
  all: try (destruct inner; cbn [conforms] in Hc; try discriminate Hc).
  all: try (destruct u; cbn [conforms] in Hc; try discriminate Hc).
  all: inversion Hs; subst; clear Hs.
  all: cbn [decode].
  all: repeat match goal with
       | H : slong _ _ |- _ => apply slong_is_enc in H as [-> ?]
       | H : sint _ _ |- _ => apply sint_is_enc in H as [-> ?]
       | H : sbytes _ _ |- _ => apply sbytes_is_enc in H as [-> ?]
       end.
  - (* null *) reflexivity.
  - (* boolean *) destruct b; reflexivity.
  - (* int *) rewrite int_roundtrip by assumption. reflexivity.
  - (* long *) rewrite long_roundtrip by assumption. reflexivity.
  - (* float *) rewrite (take_app_n 4) by (apply (lenN_le 4)). rewrite (of_le_le_bytes 4) by assumption. reflexivity.
  - (* double *) rewrite (take_app_n 8) by (apply (lenN_le 8)). rewrite (of_le_le_bytes 8) by assumption. reflexivity.
  - (* bytes *) unfold bytes_ok in Hc. apply andb_true_iff in Hc as [_ Hl]. rewrite dec_bytes_ok by exact Hl. reflexivity.
  - (* string *) unfold str_ok, bytes_ok in Hc. apply andb_true_iff in Hc as [Hc Hu]. apply andb_true_iff in Hc as [_ Hl].
    unfold dec_string. rewrite dec_bytes_ok by exact Hl. cbn [bind]. rewrite Hu. reflexivity.
  - (* array *)
    apply andb_true_iff in Hc as [Hcnt Hall]. unfold count_ok in Hcnt. apply andb_true_iff in Hcnt as [Hl Hsc].
    match goal with H : blocks _ _ _ |- _ =>
      rewrite (blocks_decode c (vsize c) _ (decode f c nmz ed s) l bs H) end; try (rewrite N.add_0_l; assumption).
    + reflexivity.
    + intros x a0 Hin Hx r. apply (IH s x ed a0 Hx). rewrite forallb_forall in Hall. apply Hall. exact Hin.
    + rewrite app_length. lia.
  - (* map *)
    apply andb_true_iff in Hc as [Hc Hall]. apply andb_true_iff in Hc as [Hcnt Hnd].
    unfold count_ok in Hcnt. apply andb_true_iff in Hcnt as [Hl Hsc].
    match goal with H : blocks _ _ _ |- _ =>
      rewrite (blocks_decode c (kvsize c) _
                 (fun b0 => do (k0, r1) <- dec_string c b0; do (x0, r2) <- decode f c nmz ed s r1; Ok ((k0, x0), r2))
                 l bs H) end; try (rewrite N.add_0_l; assumption).
    + cbn [bind]. rewrite map_of_list_nodup by exact Hnd. reflexivity.
    + intros [k x] a0 Hin (kb & xb & Hu & Hk & Hx & ->) r. cbn [fst snd] in *.
      apply sbytes_is_enc in Hk as [-> _].
      rewrite forallb_forall in Hall. specialize (Hall _ Hin). cbn [fst snd] in Hall.
      apply andb_true_iff in Hall as [Hko Hxo]. unfold str_ok, bytes_ok in Hko.
      apply andb_true_iff in Hko as [Hko _]. apply andb_true_iff in Hko as [_ Hkl].
      unfold dec_string. rewrite <- app_assoc, dec_bytes_ok by exact Hkl. cbn [bind]. rewrite Hu. cbn [bind].
      rewrite (IH s x ed xb Hx Hxo). reflexivity.
    + rewrite app_length. lia.
  - (* union *)
    apply andb_true_iff in Hc as [Hi Hb]. apply N.ltb_lt in Hi.
    match goal with H : nth_N branches i = Some ?b |- _ => rewrite H in Hb; rename H into Hn end.
    rewrite <- app_assoc, long_roundtrip by assumption.
    assert (E1 : (Z.of_N i <? 0)%Z = false) by lia. rewrite E1, N2Z.id, Hn.
    match goal with H : spec _ _ _ _ ?xb |- _ => rewrite (IH _ _ _ xb H Hb) end. cbn [bind].
    rewrite N.mod_small by lia. reflexivity.
  - (* record *)
    apply andb_true_iff in Hc as [_ Hcf].
    match goal with H : sfields _ _ _ _ |- _ =>
      rewrite (sfields_decode (spec nmz (ns (fqn n ed))) (conforms f c nmz (ns (fqn n ed)))
                 (decode f c nmz (ns (fqn n ed))) (fun s0 v0 a0 Hx0 Hc0 r0 => IH s0 v0 _ a0 Hx0 Hc0 r0) fields l bs H Hcf) end.
    reflexivity.
  - (* enum *)
    apply andb_true_iff in Hc as [Hi _]. apply N.ltb_lt in Hi.
    rewrite int_roundtrip by assumption.
    assert (E1 : (Z.of_N i <? 0)%Z = false) by lia. rewrite E1, N2Z.id.
    match goal with H : nth_N symbols i = Some _ |- _ => rewrite H end. reflexivity.
  - (* fixed *)
    unfold dec_fixed. rewrite (take_app_n (fx_size f0)) by assumption. reflexivity.
  - (* decimal bytes *)
    apply andb_true_iff in Hc as [Hc _]. unfold bytes_ok in Hc. apply andb_true_iff in Hc as [_ Hl].
    rewrite dec_bytes_ok by exact Hl. reflexivity.
  - (* decimal fixed *)
    unfold dec_fixed. rewrite (take_app_n (fx_size f0)) by assumption. reflexivity.
  - (* big decimal *)
    apply andb_true_iff in Hc as [Hc Hl2]. apply andb_true_iff in Hc as [Hc Hl1].
    apply andb_true_iff in Hc as [Hc Hsc]. apply andb_true_iff in Hc as [_ Hmin]. apply bytes_eqb_eq in Hmin.
    rewrite dec_bytes_ok by exact Hl2. cbn [bind]. unfold dec_bigdec.
    rewrite <- (app_nil_r (enc_bytes unscaled ++ enc_long scale)), <- app_assoc.
    rewrite dec_bytes_ok by exact Hl1. cbn [bind]. rewrite long_roundtrip by exact Hsc. rewrite Hmin. reflexivity.
  - (* uuid string *)
    apply andb_true_iff in Hc as [Hc Hlen]. apply andb_true_iff in Hc as [Hl Hall]. apply N.eqb_eq in Hl.
    destruct (uuid_text_facts b Hl Hall) as (Hp & Ht & Hasc).
    unfold dec_string. rewrite dec_bytes_ok by (rewrite Ht; exact Hlen). cbn [bind].
    rewrite ascii_utf8 by exact Hasc. cbn [bind]. rewrite Hp. reflexivity.
  - (* uuid bytes *)
    apply andb_true_iff in Hc as [Hc Hlen]. apply andb_true_iff in Hc as [Hl _]. apply N.eqb_eq in Hl.
    rewrite dec_bytes_ok by (rewrite Hl; exact Hlen). cbn [bind]. rewrite Hl. reflexivity.
  - (* uuid fixed *)
    apply andb_true_iff in Hc as [Hc Hsz]. apply N.eqb_eq in Hsz.
    unfold dec_fixed. rewrite (take_app_n (fx_size f0)) by (rewrite Hsz; assumption). cbn [bind].
    rewrite Hsz. reflexivity.
  - rewrite int_roundtrip by assumption. reflexivity.
  - rewrite int_roundtrip by assumption. reflexivity.
  - rewrite long_roundtrip by assumption. reflexivity.
  - rewrite long_roundtrip by assumption. reflexivity.
  - rewrite long_roundtrip by assumption. reflexivity.
  - rewrite long_roundtrip by assumption. reflexivity.
  - rewrite long_roundtrip by assumption. reflexivity.
  - rewrite long_roundtrip by assumption. reflexivity.
  - rewrite long_roundtrip by assumption. reflexivity.
  - (* duration *)
    match goal with H : fx_size f0 = 12 |- _ => rewrite H end. cbn [N.eqb Pos.eqb].
    rewrite <- !app_assoc.
    rewrite (take_app_n 4) by (apply (lenN_le 4)).
    rewrite (take_app_n 4) by (apply (lenN_le 4)).
    rewrite (take_app_n 4) by (apply (lenN_le 4)).
    rewrite !(of_le_le_bytes 4) by assumption. reflexivity.
Qed.

(* ---------------- Theorem: what the encoder writes is specification-legal ---------------- *)
Lemma enc_fields_sfields (cf : schema -> value -> bool) (e : schema -> value -> res bytes)
      (elem : schema -> value -> bytes -> Prop) :
  (forall s v a, cf s v = true -> e s v = Ok a -> elem s v a) ->
  forall fs l pre b,
    nodup_strs (map (fun ms : fmeta * schema => f_name (fst ms)) fs) = true ->
    conf_fields cf fs l = true -> enc_fields e fs (pre ++ l) = Ok b -> sfields elem fs l b.
Proof.
  intros He. induction fs as [|[m s] fs IH]; intros [|[k v] l] pre b Hnd Hc Hb; try discriminate.
  - cbn in Hb. inversion Hb; subst. constructor.
  - cbn [conf_fields] in Hc. apply andb_true_iff in Hc as [Hc H3]. apply andb_true_iff in Hc as [H1 H2].
    apply bytes_eqb_eq in H1. subst k.
    cbn [map nodup_strs fst] in Hnd. apply andb_true_iff in Hnd as [Hn1 Hn2]. apply negb_true_iff in Hn1.
    assert (Hlast : lookup_last (f_name m) l = None) by (eapply lookup_last_none; [exact H3|exact Hn1]).
    cbn [enc_fields] in Hb. rewrite (lookup_last_app _ _ _ _ Hlast) in Hb.
    destruct (e s v) as [a| | |] eqn:Ea; cbn [bind] in Hb; try discriminate.
    destruct (enc_fields e fs (pre ++ (f_name m, v) :: l)) as [b'| | |] eqn:Eb; cbn [bind] in Hb; try discriminate.
    inversion Hb; subst. constructor; [apply He; assumption|].
    apply (IH l (pre ++ [(f_name m, v)])); try assumption. rewrite <- app_assoc. exact Eb.
Qed.

Theorem encode_in_spec c nmz : names_ok nmz ->
  forall fe s v ee ed bs, agree ee ed s -> conforms fe c nmz ed s v = true ->
    encode fe nmz ee s v = Ok bs -> spec nmz ed s v bs.
Proof.
  intros Hok. induction fe as [|f IH]; intros s v ee ed bs Hag Hc He; [discriminate|].
  destruct s.
  28: { cbn [conforms] in Hc. cbn [agree] in Hag. cbn [encode] in He.
        rewrite (fqn_nsq n ee ed Hag) in He.
        destruct (names_get (fqn n ed) nmz) as [s'|] eqn:Hget; [|discriminate].
        apply (S_ref nmz ed n s' v bs Hget).
        apply (IH s' v ee (ns (fqn n ed)) bs); try assumption. eapply agree_ref; eassumption. }
  all: try (destruct v; cbn [conforms] in Hc; try discriminate Hc).
  all: try (destruct inner; cbn [conforms] in Hc; try discriminate Hc).
  all: try (destruct u; cbn [conforms] in Hc; try discriminate Hc).
  all: cbn [encode] in He.
  - inversion He; subst. constructor.
  - inversion He; subst. constructor.
  - inversion He; subst. constructor. apply sint_enc. exact Hc.
  - inversion He; subst. constructor. apply slong_enc. exact Hc.
  - inversion He; subst. constructor. apply N.ltb_lt. exact Hc.
  - inversion He; subst. constructor. apply N.ltb_lt. exact Hc.
  - (* bytes *) inversion He; subst. unfold bytes_ok in Hc. apply andb_true_iff in Hc as [_ Hl].
    apply len_ok_spec in Hl as [_ Hl]. constructor. apply sbytes_enc. exact Hl.
  - (* string *) inversion He; subst. unfold str_ok, bytes_ok in Hc. apply andb_true_iff in Hc as [Hc Hu].
    apply andb_true_iff in Hc as [_ Hl]. apply len_ok_spec in Hl as [_ Hl].
    constructor; [exact Hu|apply sbytes_enc; exact Hl].
  - (* array *)
    apply andb_true_iff in Hc as [Hcnt Hall]. unfold count_ok in Hcnt. apply andb_true_iff in Hcnt as [Hl _].
    apply len_ok_spec in Hl as [_ Hl]. constructor.
    destruct l as [|x xs].
    + inversion He; subst. constructor.
    + cbn iota in He. set (l := x :: xs) in *.
      destruct (enc_list (encode f nmz ee s) l) as [b| | |] eqn:Eb; cbn [bind] in He; try discriminate.
      assert (Hbs : bs = enc_long (Z.of_N (lenN l)) ++ b ++ [0]) by congruence. subst bs.
      rewrite <- (app_nil_r l) at 1.
      apply blocks_pos; [subst l; discriminate|apply slong_enc; apply in_i64_spec; lia| |constructor].
      apply (enc_list_items (encode f nmz ee s)); [|exact Eb].
      intros y a0 Hy Hya. apply (IH s y ee ed a0 (agree_of_nsq _ _ _ Hag)); [|exact Hya].
      rewrite forallb_forall in Hall. apply Hall. exact Hy.
  - (* map *)
    rename l into m.
    apply andb_true_iff in Hc as [Hc Hall]. apply andb_true_iff in Hc as [Hcnt _].
    unfold count_ok in Hcnt. apply andb_true_iff in Hcnt as [Hl _]. apply len_ok_spec in Hl as [_ Hl]. constructor.
    destruct m as [|kv m'].
    + inversion He; subst. constructor.
    + cbn iota in He. set (m := kv :: m') in *.
      set (E := fun kv0 : str * value => do ea <- encode f nmz ee s (snd kv0); Ok (enc_bytes (fst kv0) ++ ea)) in *.
      destruct (enc_list E m) as [b| | |] eqn:Eb; cbn [bind] in He; try discriminate.
      assert (Hbs : bs = enc_long (Z.of_N (lenN m)) ++ b ++ [0]) by congruence. subst bs.
      rewrite <- (app_nil_r m) at 1.
      apply blocks_pos; [subst m; discriminate|apply slong_enc; apply in_i64_spec; lia| |constructor].
      apply (enc_list_items E); [|exact Eb].
      intros [k x] a0 Hy Hya. unfold E in Hya. cbn [fst snd] in *.
      destruct (encode f nmz ee s x) as [ea| | |] eqn:Ex; cbn [bind] in Hya; try discriminate. inversion Hya; subst a0.
      rewrite forallb_forall in Hall. specialize (Hall _ Hy). cbn [fst snd] in Hall.
      apply andb_true_iff in Hall as [Hko Hxo]. unfold str_ok, bytes_ok in Hko.
      apply andb_true_iff in Hko as [Hko Hu]. apply andb_true_iff in Hko as [_ Hkl]. apply len_ok_spec in Hkl as [_ Hkl].
      exists (enc_bytes k), ea. repeat split; [exact Hu|apply sbytes_enc; exact Hkl|].
      apply (IH s x ee ed ea (agree_of_nsq _ _ _ Hag) Hxo Ex).
  - (* union *)
    apply andb_true_iff in Hc as [Hi Hb]. apply N.ltb_lt in Hi.
    destruct (nth_N branches i) as [br|] eqn:Hn; [|discriminate].
    destruct (encode f nmz ee br v) as [ea| | |] eqn:Ea; cbn [bind] in He; try discriminate.
    inversion He; subst. apply (S_union nmz ed branches i br v); [exact Hn|apply slong_enc; apply in_i64_spec; lia|].
    apply (IH br v ee ed ea (agree_of_nsq _ _ _ Hag) Hb Ea).
  - (* record *)
    apply andb_true_iff in Hc as [Hnd Hcf]. constructor.
    apply (enc_fields_sfields (conforms f c nmz (ns (fqn n ed))) (encode f nmz (ns_or n ee))) with (pre := @nil (str * value));
      try assumption.
    intros s0 v0 a0 H0 Ha0. apply (IH s0 v0 (ns_or n ee) (ns (fqn n ed)) a0); [apply agree_of_nsq; exact Hag|exact H0|exact Ha0].
  - (* enum *)
    apply andb_true_iff in Hc as [Hi Hs]. apply N.ltb_lt in Hi.
    destruct (nth_N symbols i) as [y|] eqn:Hn; [|discriminate]. apply bytes_eqb_eq in Hs. subst y.
    inversion He; subst. unfold wrap_i32. assert (E : (i <? 2 ^ 31) = true) by (apply N.ltb_lt; exact Hi). rewrite E.
    apply S_enum; [exact Hn|apply sint_enc; apply in_i32_spec; lia].
  - (* fixed *)
    apply andb_true_iff in Hc as [Hc _]. apply andb_true_iff in Hc as [Hn Hl]. apply N.eqb_eq in Hn, Hl. subst n.
    inversion He; subst. apply S_fixed. exact Hl.
  - (* decimal bytes *)
    apply andb_true_iff in Hc as [Hc Hne]. unfold bytes_ok in Hc. apply andb_true_iff in Hc as [_ Hl].
    apply len_ok_spec in Hl as [_ Hl].
    assert (Hb : b <> []) by (intros ->; discriminate). rewrite dec_to_vec_self in He by exact Hb. inversion He; subst.
    apply S_decimal_bytes; [exact Hb|apply sbytes_enc; exact Hl].
  - (* decimal fixed *)
    apply andb_true_iff in Hc as [Hc Hne]. apply andb_true_iff in Hc as [Hl _]. apply N.eqb_eq in Hl.
    assert (Hb : b <> []) by (intros ->; discriminate).
    rewrite <- Hl, sign_extend_self in He by exact Hb. inversion He; subst. apply S_decimal_fixed; assumption.
  - (* big decimal *)
    apply andb_true_iff in Hc as [Hc Hl2]. apply andb_true_iff in Hc as [Hc Hl1].
    apply andb_true_iff in Hc as [Hc Hsc]. apply len_ok_spec in Hl1 as [_ Hl1]. apply len_ok_spec in Hl2 as [_ Hl2].
    inversion He; subst. unfold enc_bigdec.
    apply (S_bigdecimal nmz ed unscaled scale (enc_bytes unscaled) (enc_long scale));
      [apply sbytes_enc; exact Hl1|apply slong_enc; exact Hsc|apply sbytes_enc; exact Hl2].
  - (* uuid string *)
    apply andb_true_iff in Hc as [Hc Hlen]. apply andb_true_iff in Hc as [Hl Hall]. apply N.eqb_eq in Hl.
    destruct (uuid_text_facts b Hl Hall) as (_ & Ht & _).
    inversion He; subst. apply S_uuid_string; [exact Hl|exact Hall|apply sbytes_enc; rewrite Ht; lia].
  - (* uuid bytes *)
    apply andb_true_iff in Hc as [Hc Hlen]. apply andb_true_iff in Hc as [Hl _]. apply N.eqb_eq in Hl.
    inversion He; subst. apply S_uuid_bytes; [exact Hl|apply sbytes_enc; rewrite Hl; lia].
  - (* uuid fixed *)
    apply andb_true_iff in Hc as [Hc Hsz]. apply andb_true_iff in Hc as [Hl _]. apply N.eqb_eq in Hl.
    rewrite Hsz in He. inversion He; subst. apply N.eqb_eq in Hsz. apply S_uuid_fixed; assumption.
  - inversion He; subst. constructor. apply sint_enc. exact Hc.
  - inversion He; subst. constructor. apply sint_enc. exact Hc.
  - inversion He; subst. constructor. apply slong_enc. exact Hc.
  - inversion He; subst. constructor. apply slong_enc. exact Hc.
  - inversion He; subst. constructor. apply slong_enc. exact Hc.
  - inversion He; subst. constructor. apply slong_enc. exact Hc.
  - inversion He; subst. constructor. apply slong_enc. exact Hc.
  - inversion He; subst. constructor. apply slong_enc. exact Hc.
  - inversion He; subst. constructor. apply slong_enc. exact Hc.
  - (* duration *)
    apply andb_true_iff in Hc as [Hc H3]. apply andb_true_iff in Hc as [Hc H2]. apply andb_true_iff in Hc as [Hsz H1].
    apply N.eqb_eq in Hsz. apply N.ltb_lt in H1, H2, H3.
    assert (Hbs : bs = le_bytes 4 months ++ le_bytes 4 days ++ le_bytes 4 millis) by congruence. subst bs.
    apply S_duration; assumption.
Qed.

(* ---------------- the lax layout generator only produces specification-legal bytes ---------------- *)
From AvroV Require Import Layout.

Lemma chunks_spec {A} k : forall f (l : list A), (length l <= f)%nat ->
  concat (chunks k f l) = l /\ Forall (fun g => g <> []) (chunks k f l).
Proof.
  induction f as [|f IH]; intros l Hl.
  - destruct l; [split; [reflexivity|constructor]|cbn in Hl; lia].
  - destruct l as [|x l']; [split; [reflexivity|constructor]|].
    cbn [chunks].
    destruct (IH (skipn (S k) (x :: l'))) as [Hc Hne].
    { rewrite skipn_length. cbn [length] in *. lia. }
    split.
    + cbn [concat]. rewrite Hc. apply firstn_skipn.
    + constructor; [cbn [firstn]; discriminate|exact Hne].
Qed.

Lemma lay_blocks_spec {A} neg (e : A -> res bytes) (elem : A -> bytes -> Prop) :
  forall groups bs,
    Forall (fun g => g <> []) groups ->
    Forall (fun g => lenN g < 2 ^ 63) groups ->
    (forall g b, In g groups -> enc_list e g = Ok b -> items elem g b) ->
    lay_blocks neg e groups = Ok bs -> blocks elem (concat groups) bs.
Proof.
  induction groups as [|g r IH]; intros bs Hne Hlen He Hb; cbn [lay_blocks] in Hb.
  - inversion Hb; subst. constructor.
  - inversion Hne as [|? ? Hg Hr]; subst. inversion Hlen as [|? ? Lg Lr]; subst.
    destruct (enc_list e g) as [b| | |] eqn:Eb; cbn [bind] in Hb; try discriminate.
    destruct (lay_blocks neg e r) as [rest| | |] eqn:Er; cbn [bind] in Hb; try discriminate.
    pose proof (He g b (or_introl eq_refl) Eb) as Hi.
    assert (Hrest : blocks elem (concat r) rest).
    { apply (IH rest Hr Lr); [|reflexivity]. intros g0 b0 Hin Hb0. apply (He g0 b0); [right; exact Hin|exact Hb0]. }
    cbn [concat]. destruct neg.
    + destruct (lenN b <? 2 ^ 63) eqn:Hbl; [|discriminate]. apply N.ltb_lt in Hbl. inversion Hb; subst.
      apply blocks_neg; try assumption; apply slong_enc; apply in_i64_spec; lia.
    + inversion Hb; subst. apply blocks_pos; try assumption. apply slong_enc; apply in_i64_spec; lia.
Qed.

Lemma lay_fields_sfields (cf : schema -> value -> bool) (e : schema -> value -> res bytes)
      (elem : schema -> value -> bytes -> Prop) :
  (forall s v a, cf s v = true -> e s v = Ok a -> elem s v a) ->
  forall fs l b, conf_fields cf fs l = true -> lay_fields e fs l = Ok b -> sfields elem fs l b.
Proof.
  intros He. induction fs as [|[m s] fs IH]; intros [|[k v] l] b Hc Hb; try discriminate.
  - cbn in Hb. inversion Hb; subst. constructor.
  - cbn [conf_fields] in Hc. apply andb_true_iff in Hc as [Hc H3]. apply andb_true_iff in Hc as [H1 H2].
    apply bytes_eqb_eq in H1. subst k. cbn [lay_fields] in Hb.
    destruct (e s v) as [a| | |] eqn:Ea; cbn [bind] in Hb; try discriminate.
    destruct (lay_fields e fs l) as [b'| | |] eqn:Eb; cbn [bind] in Hb; try discriminate.
    inversion Hb; subst. constructor; [apply He; assumption|apply IH; assumption].
Qed.

Lemma chunk_len_le {A} (groups : list (list A)) g : In g groups -> lenN g <= lenN (concat groups).
Proof.
  induction groups as [|g0 gs IH]; intros Hg; [destruct Hg|].
  cbn [concat]. rewrite lenN_app. destruct Hg as [->|Hg]; [lia|specialize (IH Hg); lia].
Qed.

Definition is_leaf (s : schema) : bool :=
  match s with SArray _ _ | SMap _ _ | SUnion _ | SRecord _ _ _ _ _ | SRef _ => false | _ => true end.

Lemma lay_leaf f k neg nmz ed s v : is_leaf s = true -> lay (S f) k neg nmz ed s v = encode 1 nmz ed s v.
Proof. destruct s; try discriminate; intros _; destruct v; reflexivity. Qed.

Lemma conforms_leaf f c nmz ed s v : is_leaf s = true -> conforms (S f) c nmz ed s v = conforms 1 c nmz ed s v.
Proof.
  destruct s; try discriminate; intros _; destruct v; try reflexivity;
    try (destruct inner; reflexivity); try (destruct u; reflexivity).
Qed.

Theorem lay_in_spec c nmz : names_ok nmz ->
  forall fe k neg s v ed bs, conforms fe c nmz ed s v = true ->
    lay fe k neg nmz ed s v = Ok bs -> spec nmz ed s v bs.
Proof.
  intros Hok. induction fe as [|f IH]; intros k neg s v ed bs Hc Hl; [discriminate|].
  destruct (is_leaf s) eqn:Hleaf.
  { rewrite lay_leaf in Hl by exact Hleaf. rewrite conforms_leaf in Hc by exact Hleaf.
    exact (encode_in_spec c nmz Hok 1 s v ed ed bs (agree_of_nsq ed ed s eq_refl) Hc Hl). }
  destruct s; try discriminate Hleaf.
  - (* array *)
    destruct v; cbn [conforms] in Hc; try discriminate Hc. cbn [lay] in Hl.
    apply andb_true_iff in Hc as [Hcnt Hall]. constructor.
    destruct (chunks_spec k (length l) l (le_n _)) as [Hcc Hne].
    unfold count_ok in Hcnt. apply andb_true_iff in Hcnt as [Hlo _]. apply len_ok_spec in Hlo as [_ Hlo].
    rewrite <- Hcc at 1.
    apply (lay_blocks_spec neg (lay f k neg nmz ed s) (spec nmz ed s)); try assumption.
    + apply Forall_forall. intros g Hg. pose proof (chunk_len_le _ g Hg) as Hle. rewrite Hcc in Hle. lia.
    + intros g b Hg Hb.
      apply (enc_list_items (lay f k neg nmz ed s)); [|exact Hb].
      intros y a0 Hy Hya. apply (IH k neg s y ed a0); [|exact Hya].
      rewrite forallb_forall in Hall. apply Hall. rewrite <- Hcc. apply in_concat. exists g. split; assumption.
  - (* map *)
    destruct v; cbn [conforms] in Hc; try discriminate Hc. cbn [lay] in Hl.
    apply andb_true_iff in Hc as [Hc Hall]. apply andb_true_iff in Hc as [Hcnt _]. constructor.
    destruct (chunks_spec k (length l) l (le_n _)) as [Hcc Hne].
    unfold count_ok in Hcnt. apply andb_true_iff in Hcnt as [Hlo _]. apply len_ok_spec in Hlo as [_ Hlo].
    rewrite <- Hcc at 1.
    eapply (lay_blocks_spec neg); try eassumption.
    + apply Forall_forall. intros g Hg. pose proof (chunk_len_le _ g Hg) as Hle. rewrite Hcc in Hle. lia.
    + intros g b Hg Hb.
      eapply enc_list_items; [|exact Hb].
      intros [kk x] a0 Hy Hya. cbn [fst snd] in *.
      destruct (lay f k neg nmz ed s x) as [ea| | |] eqn:Ex; cbn [bind] in Hya; try discriminate. inversion Hya; subst a0.
      assert (Hin : In (kk, x) l) by (rewrite <- Hcc; apply in_concat; exists g; split; assumption).
      rewrite forallb_forall in Hall. specialize (Hall _ Hin). cbn [fst snd] in Hall.
      apply andb_true_iff in Hall as [Hko Hxo]. unfold str_ok, bytes_ok in Hko.
      apply andb_true_iff in Hko as [Hko Hu]. apply andb_true_iff in Hko as [_ Hkl]. apply len_ok_spec in Hkl as [_ Hkl].
      exists (enc_bytes kk), ea. repeat split; [exact Hu|apply sbytes_enc; exact Hkl|].
      apply (IH k neg s x ed ea Hxo Ex).
  - (* union *)
    destruct v; cbn [conforms] in Hc; try discriminate Hc. cbn [lay] in Hl.
    apply andb_true_iff in Hc as [Hi Hb]. apply N.ltb_lt in Hi.
    destruct (nth_N branches i) as [br|] eqn:Hn; [|discriminate].
    destruct (lay f k neg nmz ed br v) as [ea| | |] eqn:Ea; cbn [bind] in Hl; try discriminate.
    inversion Hl; subst. apply (S_union nmz ed branches i br v); [exact Hn|apply slong_enc; apply in_i64_spec; lia|].
    apply (IH k neg br v ed ea Hb Ea).
  - (* record *)
    destruct v; cbn [conforms] in Hc; try discriminate Hc. cbn [lay] in Hl.
    apply andb_true_iff in Hc as [_ Hcf]. constructor.
    apply (lay_fields_sfields (conforms f c nmz (ns (fqn n ed))) (lay f k neg nmz (ns (fqn n ed)))); try assumption.
    intros s0 v0 a0 H0 Ha0. apply (IH k neg s0 v0 _ a0 H0 Ha0).
  - (* ref *)
    cbn [conforms] in Hc. cbn [lay] in Hl.
    destruct (names_get (fqn n ed) nmz) as [s'|] eqn:Hget; [|discriminate].
    apply (S_ref nmz ed n s' v bs Hget). apply (IH k neg s' v _ bs Hc Hl).
Qed.
