(* A successfully decoded value conforms to the schema (C06). *)
From AvroV Require Import Base Varint Schema Bytes Names Codec Conforms VarintP BytesP CodecP.
From Coq Require Import ZifyN ZifyBool ZifyNat.
Open Scope N_scope.
Ltac Zify.zify_post_hook ::= Z.div_mod_to_equations.

Lemma all_bytes_app a b : all_bytes (a ++ b) = all_bytes a && all_bytes b.
Proof. induction a as [|x a IH]; cbn [app all_bytes]; [reflexivity|]. rewrite IH, andb_assoc. reflexivity. Qed.

Lemma dec_var_shape : forall f j acc bs n r, dec_var f j acc bs = VOk n r ->
  exists a, bs = a ++ r /\ a <> [] /\ n < 2 ^ 64.
Proof.
  induction f as [|f IH]; intros j acc bs n r H; [discriminate|].
  cbn [dec_var] in H. destruct (9 <? j); [discriminate|].
  destruct bs as [|b rest]; [discriminate|].
  destruct (b / 128 =? 0).
  - inversion H; subst. exists [b]. repeat split; [discriminate|]. apply N.mod_lt. lia.
  - apply IH in H as (a & -> & _ & Hn). exists (b :: a). repeat split; [discriminate|exact Hn].
Qed.

Lemma zag_range n : n < 2 ^ 64 -> in_i64 (zag n) = true.
Proof.
  intros H. apply in_i64_spec. unfold zag. destruct (N.even n); lia.
Qed.

Lemma dec_long_shape bs z r : dec_long bs = LOk z r ->
  exists a, bs = a ++ r /\ a <> [] /\ in_i64 z = true.
Proof.
  unfold dec_long. intros H. destruct (dec_var 11 0 0 bs) as [n r'| |] eqn:E; try discriminate.
  inversion H; subst. apply dec_var_shape in E as (a & -> & Hne & Hn).
  exists a. repeat split; [exact Hne|apply zag_range; exact Hn].
Qed.

Lemma dec_int_shape bs z r : dec_int bs = LOk z r ->
  exists a, bs = a ++ r /\ a <> [] /\ in_i32 z = true.
Proof.
  unfold dec_int. intros H. destruct (dec_long bs) as [z' r'| |] eqn:E; try discriminate.
  destruct (in_i32 z') eqn:Ei; [|discriminate]. inversion H; subst.
  apply dec_long_shape in E as (a & -> & Hne & _). exists a. repeat split; assumption.
Qed.

Lemma of_le_bound b : all_bytes b = true -> of_le b < 256 ^ (lenN b).
Proof.
  induction b as [|x b IH]; cbn [all_bytes of_le]; intros H; [cbn; lia|].
  apply andb_true_iff in H as [Hx Hb]. apply N.ltb_lt in Hx. specialize (IH Hb).
  rewrite lenN_cons. replace (1 + lenN b) with (lenN b + 1) by lia.
  rewrite N.pow_add_r. change (256 ^ 1) with 256. nia.
Qed.

(* dec_len / dec_bytes shapes *)
Lemma dec_len_shape c bs n r : dec_len c bs = Ok (n, r) ->
  (exists a, bs = a ++ r) /\ n <= max_alloc c.
Proof.
  unfold dec_len. intros H. destruct (dec_long bs) as [z r'| |] eqn:E; try discriminate.
  destruct (z <? 0)%Z; [discriminate|]. unfold safe_len in H.
  destruct (Z.to_N z <=? max_alloc c) eqn:Es; [|discriminate]. inversion H; subst.
  apply dec_long_shape in E as (a & -> & _). split; [exists a; reflexivity|]. apply N.leb_le. exact Es.
Qed.

Lemma dec_bytes_shape c bs b r : dec_bytes c bs = Ok (b, r) ->
  (exists a, bs = a ++ b ++ r) /\ lenN b <= max_alloc c.
Proof.
  unfold dec_bytes. intros H. destruct (dec_len c bs) as [[n r1]| | |] eqn:E; cbn [bind] in H; try discriminate.
  destruct (take n r1) as [[b' r']|] eqn:T; cbn [of_option] in H; [|discriminate]. inversion H; subst.
  apply dec_len_shape in E as ((a & ->) & Hn). apply take_spec in T as (-> & Hl).
  split; [exists a; reflexivity|]. lia.
Qed.

(* ---- uuid text parser output ---- *)
Lemma unhex_lt c n : unhex c = Some n -> n < 16.
Proof.
  unfold unhex. destruct ((48 <=? c) && (c <=? 57)) eqn:A; [intros H; inversion H; lia|].
  destruct ((97 <=? c) && (c <=? 102)) eqn:B; [intros H; inversion H; lia|].
  destruct ((65 <=? c) && (c <=? 70)) eqn:C; [intros H; inversion H; lia|discriminate].
Qed.

Lemma list_ind2 {A} (P : list A -> Prop) :
  P [] -> (forall x, P [x]) -> (forall x y l, P l -> P (x :: y :: l)) -> forall l, P l.
Proof.
  intros H0 H1 H2. fix IH 1. intros [|x [|y l]]; [exact H0|apply H1|apply H2; apply IH].
Qed.

Lemma unhex_pairs_out : forall s u, unhex_pairs s = Some u -> lenN s = 2 * lenN u /\ all_bytes u = true.
Proof.
  induction s as [|x|h l r IH] using list_ind2; intros u H; cbn [unhex_pairs] in H.
  - inversion H; subst. split; reflexivity.
  - discriminate.
  - destruct (unhex h) as [a|] eqn:Ha; [|discriminate]. destruct (unhex l) as [b|] eqn:Hb; [|discriminate].
    destruct (unhex_pairs r) as [t|] eqn:Ht; [|discriminate]. inversion H; subst.
    destruct (IH t eq_refl) as [Hl Hall]. apply unhex_lt in Ha, Hb.
    rewrite !lenN_cons. split; [lia|]. cbn [all_bytes]. rewrite Hall.
    assert (E : (a * 16 + b <? 256) = true) by (apply N.ltb_lt; lia). rewrite E. reflexivity.
Qed.

Lemma parse_hyphenated_out s u : parse_hyphenated s = Some u -> lenN u = 16 /\ all_bytes u = true.
Proof.
  unfold parse_hyphenated. intros H.
  destruct (take 8 s) as [[g1 [|x1 r1]]|] eqn:T1; try discriminate.
  destruct (take 4 r1) as [[g2 [|x2 r2]]|] eqn:T2; try discriminate.
  destruct (take 4 r2) as [[g3 [|x3 r3]]|] eqn:T3; try discriminate.
  destruct (take 4 r3) as [[g4 [|x4 g5]]|] eqn:T4; try discriminate.
  destruct ((x1 =? 45) && (x2 =? 45) && (x3 =? 45) && (x4 =? 45) && (lenN g5 =? 12)) eqn:E; [|discriminate].
  apply andb_true_iff in E as [_ L5]. apply N.eqb_eq in L5.
  apply take_spec in T1 as [_ L1]. apply take_spec in T2 as [_ L2].
  apply take_spec in T3 as [_ L3]. apply take_spec in T4 as [_ L4].
  apply unhex_pairs_out in H as [Hl Hall]. split; [|exact Hall].
  rewrite !lenN_app in Hl. lia.
Qed.

Lemma uuid_parse_out t u : uuid_parse t = Some u -> lenN u = 16 /\ all_bytes u = true.
Proof.
  unfold uuid_parse. intros H.
  destruct (lenN t =? 32) eqn:E32.
  - apply N.eqb_eq in E32. apply unhex_pairs_out in H as [Hl Hall]. split; [lia|exact Hall].
  - destruct (lenN t =? 36); [eapply parse_hyphenated_out; exact H|].
    destruct (lenN t =? 38).
    + destruct t as [|x r]; [discriminate|].
      destruct (take 36 r) as [[m [|y [|? ?]]]|]; try discriminate.
      destruct ((x =? 123) && (y =? 125)); [|discriminate].
      eapply parse_hyphenated_out; exact H.
    + destruct (lenN t =? 45); [|discriminate].
      destruct (take 9 t) as [[p r]|]; [|discriminate].
      destruct (bytes_eqb p urn_prefix); [|discriminate]. eapply parse_hyphenated_out; exact H.
Qed.

(* ---------------- list helpers ---------------- *)
Lemma dec_seq_len_shape c bs n r : dec_seq_len c bs = Ok (n, r) ->
  (exists a, bs = a ++ r) /\ n <= max_alloc c.
Proof.
  unfold dec_seq_len. intros H. destruct (dec_long bs) as [z r1| |] eqn:E; try discriminate.
  apply dec_long_shape in E as (a & -> & _).
  destruct (z =? 0)%Z.
  - inversion H; subst. split; [exists a; reflexivity|lia].
  - destruct (z <? 0)%Z.
    + destruct (dec_long r1) as [z2 r2| |] eqn:E2; try discriminate.
      apply dec_long_shape in E2 as (a2 & -> & _).
      destruct (z =? - 2 ^ 63)%Z; [discriminate|]. unfold safe_len in H.
      destruct (Z.to_N (- z) <=? max_alloc c) eqn:Es; [|discriminate]. inversion H; subst.
      split; [exists (a ++ a2); rewrite app_assoc; reflexivity|apply N.leb_le; exact Es].
    + unfold safe_len in H. destruct (Z.to_N z <=? max_alloc c) eqn:Es; [|discriminate]. inversion H; subst.
      split; [exists a; reflexivity|apply N.leb_le; exact Es].
Qed.

Section Items.
Context {A : Type}.
Variable d : bytes -> res (A * bytes).
Variables L P : A -> Prop.
Hypothesis d_ok : forall b x r, d b = Ok (x, r) -> (exists a, b = a ++ r) /\ (all_bytes b = true -> L x -> P x).

Lemma suffix_all_bytes (b a r : bytes) : b = a ++ r -> all_bytes b = true -> all_bytes r = true.
Proof. intros -> H. rewrite all_bytes_app in H. apply andb_true_iff in H as [_ H]. exact H. Qed.

Lemma dec_items_inv : forall n bs xs r, dec_items d n bs = Ok (xs, r) ->
  (exists a, bs = a ++ r) /\ length xs = n /\ (all_bytes bs = true -> Forall (fun x => L x -> P x) xs).
Proof.
  induction n as [|n IH]; intros bs xs r H; cbn [dec_items] in H.
  - inversion H; subst. split; [exists []; reflexivity|]. split; [reflexivity|]. intros; constructor.
  - destruct (d bs) as [[x r1]| | |] eqn:E; cbn [bind] in H; try discriminate.
    destruct (dec_items d n r1) as [[xs' r2]| | |] eqn:E2; cbn [bind] in H; try discriminate.
    inversion H; subst. destruct (d_ok _ _ _ E) as ((a1 & ->) & Hx).
    destruct (IH _ _ _ E2) as ((a2 & ->) & Hl & Hall).
    split; [exists (a1 ++ a2); rewrite app_assoc; reflexivity|]. split; [cbn; congruence|].
    intros Hb. constructor; [apply Hx; exact Hb|]. apply Hall.
    eapply suffix_all_bytes; [reflexivity|exact Hb].
Qed.

Lemma dec_blocks_inv c esize : forall g have bs xs r, dec_blocks c esize d g have bs = Ok (xs, r) ->
  (exists a, bs = a ++ r) /\ (xs = [] \/ safe_coll c esize (have + lenN xs) = true) /\
  (all_bytes bs = true -> Forall (fun x => L x -> P x) xs).
Proof.
  induction g as [|g IH]; intros have bs xs r H; [discriminate|]. cbn [dec_blocks] in H.
  destruct (dec_seq_len c bs) as [[n r1]| | |] eqn:E; cbn [bind] in H; try discriminate.
  apply dec_seq_len_shape in E as ((a0 & ->) & _).
  destruct (n =? 0) eqn:En.
  - inversion H; subst. split; [exists a0; reflexivity|]. split; [left; reflexivity|]. intros; constructor.
  - destruct (safe_coll c esize (have + n)) eqn:Es; [|discriminate].
    rewrite dec_count_spec in H.
    destruct (dec_items d (N.to_nat n) r1) as [[ys r2]| | |] eqn:E1; cbn [bind] in H; try discriminate.
    destruct (dec_blocks c esize d g (have + n) r2) as [[zs r3]| | |] eqn:E2; cbn [bind] in H; try discriminate.
    inversion H; subst.
    destruct (dec_items_inv _ _ _ _ E1) as ((a1 & ->) & Hl & Hall1).
    destruct (IH _ _ _ _ E2) as ((a2 & ->) & Hs & Hall2).
    split; [exists (a0 ++ a1 ++ a2); rewrite <- !app_assoc; reflexivity|]. split.
    + right. rewrite lenN_app. assert (Hn : lenN ys = n) by (unfold lenN; rewrite Hl; lia).
      destruct Hs as [->|Hs]; [rewrite lenN_nil, Hn, N.add_0_r; exact Es|].
      rewrite Hn, N.add_assoc. exact Hs.
    + intros Hb. apply Forall_app. split.
      * apply Hall1. eapply suffix_all_bytes; [reflexivity|exact Hb].
      * apply Hall2. apply (suffix_all_bytes (a0 ++ a1 ++ a2 ++ r) (a0 ++ a1) (a2 ++ r)); [rewrite <- app_assoc; reflexivity|exact Hb].
Qed.
End Items.

(* ---- map_of_list ---- *)
Lemma map_insert_in {A} k (v : A) l kv : In kv (map_insert k v l) -> kv = (k, v) \/ In kv l.
Proof.
  induction l as [|[k' v'] l IH]; cbn [map_insert]; intros H.
  - destruct H as [<-|[]]. left; reflexivity.
  - destruct (bytes_eqb k k').
    + destruct H as [<-|H]; [left; reflexivity|right; right; exact H].
    + destruct H as [<-|H]; [right; left; reflexivity|]. destruct (IH H) as [->|H']; [left; reflexivity|right; right; exact H'].
Qed.

Lemma lookup_map_insert_other {A} k k' (v : A) l : bytes_eqb k' k = false ->
  lookup k' (map_insert k v l) = lookup k' l.
Proof.
  intros Hne. induction l as [|[k2 v2] l IH]; cbn [map_insert lookup].
  - rewrite Hne. reflexivity.
  - destruct (bytes_eqb k k2) eqn:E.
    + cbn [lookup]. apply bytes_eqb_eq in E. subst k2. rewrite Hne. reflexivity.
    + cbn [lookup]. rewrite IH. reflexivity.
Qed.

Lemma bytes_eqb_sym a b : bytes_eqb a b = bytes_eqb b a.
Proof.
  destruct (bytes_eqb a b) eqn:E.
  - apply bytes_eqb_eq in E. subst. symmetry. apply bytes_eqb_refl.
  - destruct (bytes_eqb b a) eqn:E2; [|reflexivity]. apply bytes_eqb_eq in E2. subst. rewrite bytes_eqb_refl in E. discriminate.
Qed.

Lemma map_insert_nodup {A} k (v : A) l : nodup_keys l = true -> nodup_keys (map_insert k v l) = true.
Proof.
  induction l as [|[k' v'] l IH]; cbn [map_insert nodup_keys]; intros H; [reflexivity|].
  destruct (lookup k' l) eqn:El; [discriminate|].
  destruct (bytes_eqb k k') eqn:E.
  - apply bytes_eqb_eq in E. subst k'. cbn [nodup_keys]. rewrite El. exact H.
  - cbn [nodup_keys]. rewrite lookup_map_insert_other by (rewrite bytes_eqb_sym; exact E). rewrite El. apply IH. exact H.
Qed.

Lemma map_insert_len {A} k (v : A) l : lenN (map_insert k v l) <= lenN l + 1.
Proof.
  induction l as [|[k' v'] l IH]; cbn [map_insert]; [rewrite lenN_cons, !lenN_nil; lia|].
  destruct (bytes_eqb k k'); rewrite !lenN_cons; lia.
Qed.

Lemma map_of_list_facts {A} (l : list (bytes * A)) :
  nodup_keys (map_of_list l) = true /\ lenN (map_of_list l) <= lenN l /\
  (forall kv, In kv (map_of_list l) -> In kv l).
Proof.
  unfold map_of_list.
  assert (G : forall acc, nodup_keys acc = true ->
     nodup_keys (fold_left (fun a kv => map_insert (fst kv) (snd kv) a) l acc) = true /\
     lenN (fold_left (fun a kv => map_insert (fst kv) (snd kv) a) l acc) <= lenN acc + lenN l /\
     (forall kv, In kv (fold_left (fun a kv => map_insert (fst kv) (snd kv) a) l acc) -> In kv acc \/ In kv l)).
  { induction l as [|[k v] l IH]; intros acc Hacc; cbn [fold_left fst snd].
    - split; [exact Hacc|]. split; [rewrite lenN_nil; lia|]. intros; left; assumption.
    - destruct (IH (map_insert k v acc) (map_insert_nodup k v acc Hacc)) as (H1 & H2 & H3).
      split; [exact H1|]. split.
      + pose proof (map_insert_len k v acc). rewrite lenN_cons. lia.
      + intros kv Hin. destruct (H3 kv Hin) as [Hi|Hi].
        * apply map_insert_in in Hi as [->|Hi]; [right; left; reflexivity|left; exact Hi].
        * right; right; exact Hi. }
  destruct (G [] eq_refl) as (H1 & H2 & H3). split; [exact H1|]. split; [rewrite lenN_nil in H2; lia|].
  intros kv Hin. destruct (H3 kv Hin) as [[]|Hi]. exact Hi.
Qed.

(* ---------------- the theorem ---------------- *)
Definition cfg_ok (c : cfg) : Prop :=
  2 <= vsize c /\ 2 <= kvsize c /\ max_alloc c < 2 ^ 63 /\ 36 <= max_alloc c.
Definition names_wf (nmz : names) : Prop :=
  forall k s, names_get k nmz = Some s -> schema_wfb s = true.

Lemma names_wfb_wf nmz : names_wfb nmz = true -> names_wf nmz.
Proof.
  unfold names_wf. induction nmz as [|[k' s'] r IH]; cbn [names_wfb forallb names_get snd]; intros H k s G; [discriminate|].
  apply andb_true_iff in H as [H1 H2]. destruct (name_eqb k k'); [inversion G; subst; exact H1|apply (IH H2 k s G)].
Qed.

Lemma count_ok_of c esize n : 2 <= esize -> max_alloc c < 2 ^ 63 ->
  (n = 0 \/ safe_coll c esize n = true) -> count_ok c esize n = true.
Proof.
  intros He Hm [->|Hs].
  - unfold count_ok, len_ok, safe_coll, usize_max. cbn. assert (0 <=? max_alloc c = true) by lia. lia.
  - unfold count_ok, len_ok. rewrite Hs. unfold safe_coll in Hs. apply andb_true_iff in Hs as [_ Hs].
    apply N.leb_le in Hs. assert (n <= max_alloc c) by nia.
    assert (A : (n <=? max_alloc c) = true) by lia. assert (B : (n <? 2 ^ 63) = true) by lia.
    rewrite A, B. reflexivity.
Qed.

Lemma safe_coll_mono c esize n m : m <= n -> safe_coll c esize n = true -> safe_coll c esize m = true.
Proof.
  unfold safe_coll. intros Hm H. apply andb_true_iff in H as [H1 H2]. apply N.leb_le in H1, H2.
  apply andb_true_iff. split; apply N.leb_le; nia.
Qed.

Lemma dec_fields_inv (d : schema -> bytes -> res (value * bytes)) (cf : schema -> value -> bool)
      (L : value -> Prop) :
  forall fs,
    (forall m s, In (m, s) fs -> forall b x r, d s b = Ok (x, r) ->
        (exists a, b = a ++ r) /\ (all_bytes b = true -> L x -> cf s x = true)) ->
    forall bs l r, dec_fields d fs bs = Ok (l, r) ->
      (exists a, bs = a ++ r) /\
      (all_bytes bs = true -> Forall (fun kv => L (snd kv)) l -> conf_fields cf fs l = true).
Proof.
  induction fs as [|[m s] fs IH]; intros Hd bs l r H; cbn [dec_fields] in H.
  - inversion H; subst. split; [exists []; reflexivity|]. intros; reflexivity.
  - destruct (d s bs) as [[x r1]| | |] eqn:E; cbn [bind] in H; try discriminate.
    destruct (dec_fields d fs r1) as [[xs r2]| | |] eqn:E2; cbn [bind] in H; try discriminate.
    inversion H; subst.
    destruct (Hd m s (or_introl eq_refl) _ _ _ E) as ((a1 & ->) & Hx).
    destruct (IH (fun m0 s0 Hin => Hd m0 s0 (or_intror Hin)) _ _ _ E2) as ((a2 & ->) & Hrest).
    split; [exists (a1 ++ a2); rewrite app_assoc; reflexivity|].
    intros Hb HL. inversion HL as [|? ? HLx HLr]; subst. cbn [snd] in HLx.
    cbn [conf_fields]. rewrite bytes_eqb_refl, (Hx Hb HLx). cbn [andb].
    apply Hrest; [|exact HLr]. eapply suffix_all_bytes; [reflexivity|exact Hb].
Qed.

Lemma forallb_Forall {A} (p : A -> bool) l : forallb p l = true <-> Forall (fun x => p x = true) l.
Proof. rewrite forallb_forall, Forall_forall. reflexivity. Qed.

Theorem decoded_gen c nmz : cfg_ok c -> names_wf nmz ->
  forall fd s bs ed v rest, schema_wfb s = true -> decode fd c nmz ed s bs = Ok (v, rest) ->
    (exists a, bs = a ++ rest) /\
    (all_bytes bs = true -> leaf_ok c v = true -> conforms fd c nmz ed s v = true).
Proof.
  intros (Hv & Hkv & Hmax & H36) Hnw.
  induction fd as [|f IH]; intros s bs ed v rest Hwf H; [discriminate|].
  destruct s; cbn [decode] in H.
  - (* null *) inversion H; subst. split; [exists []; reflexivity|]. intros; reflexivity.
  - (* boolean *)
    destruct bs as [|b r]; [discriminate|].
    destruct (b =? 0); [|destruct (b =? 1); [|discriminate]]; inversion H; subst;
      (split; [exists [b]; reflexivity|intros; reflexivity]).
  - (* int *)
    destruct (dec_int bs) as [z r| |] eqn:E; cbn [lift_long] in H; try discriminate. inversion H; subst.
    apply dec_int_shape in E as (pa & -> & _ & Hz). split; [exists pa; reflexivity|]. intros; exact Hz.
  - (* long *)
    destruct (dec_long bs) as [z r| |] eqn:E; cbn [lift_long] in H; try discriminate. inversion H; subst.
    apply dec_long_shape in E as (pa & -> & _ & Hz). split; [exists pa; reflexivity|]. intros; exact Hz.
  - (* float *)
    destruct (take 4 bs) as [[b r]|] eqn:T; [|discriminate]. inversion H; subst.
    apply take_spec in T as (-> & Hl). split; [exists b; reflexivity|].
    intros Hb _. cbn [conforms]. rewrite all_bytes_app in Hb. apply andb_true_iff in Hb as [Hb _].
    pose proof (of_le_bound b Hb) as Hbd. rewrite Hl in Hbd. apply N.ltb_lt. exact Hbd.
  - (* double *)
    destruct (take 8 bs) as [[b r]|] eqn:T; [|discriminate]. inversion H; subst.
    apply take_spec in T as (-> & Hl). split; [exists b; reflexivity|].
    intros Hb _. cbn [conforms]. rewrite all_bytes_app in Hb. apply andb_true_iff in Hb as [Hb _].
    pose proof (of_le_bound b Hb) as Hbd. rewrite Hl in Hbd. apply N.ltb_lt. exact Hbd.
  - (* bytes *)
    destruct (dec_bytes c bs) as [[b r]| | |] eqn:E; cbn [bind] in H; try discriminate. inversion H; subst.
    apply dec_bytes_shape in E as ((pa & ->) & Hl). split; [exists (pa ++ b); rewrite <- app_assoc; reflexivity|].
    intros Hb _. cbn [conforms]. unfold bytes_ok, len_ok.
    rewrite !all_bytes_app in Hb. apply andb_true_iff in Hb as [_ Hb]. apply andb_true_iff in Hb as [Hb _].
    rewrite Hb. assert (A : (lenN b <=? max_alloc c) = true) by lia. assert (B : (lenN b <? 2 ^ 63) = true) by lia.
    rewrite A, B. reflexivity.
  - (* string *)
    unfold dec_string in H.
    destruct (dec_bytes c bs) as [[b r]| | |] eqn:E; cbn [bind] in H; try discriminate.
    destruct (utf8_ok b) eqn:Hu; cbn [bind] in H; [|discriminate]. inversion H; subst.
    apply dec_bytes_shape in E as ((pa & ->) & Hl). split; [exists (pa ++ b); rewrite <- app_assoc; reflexivity|].
    intros Hb _. cbn [conforms]. unfold str_ok, bytes_ok, len_ok.
    rewrite !all_bytes_app in Hb. apply andb_true_iff in Hb as [_ Hb]. apply andb_true_iff in Hb as [Hb _].
    rewrite Hb, Hu. assert (A : (lenN b <=? max_alloc c) = true) by lia. assert (B : (lenN b <? 2 ^ 63) = true) by lia.
    rewrite A, B. reflexivity.
  - (* array *)
    destruct (dec_blocks c (vsize c) (decode f c nmz ed s) (S (length bs)) 0 bs) as [[l r]| | |] eqn:E;
      cbn [bind] in H; try discriminate. inversion H; subst.
    cbn [schema_wfb] in Hwf.
    destruct (dec_blocks_inv (decode f c nmz ed s) (fun x => leaf_ok c x = true)
                (fun x => conforms f c nmz ed s x = true)
                (fun b x r0 Hd => IH s b ed x r0 Hwf Hd) c (vsize c) _ _ _ _ _ E) as (Hsuf & Hcnt & Hall).
    split; [exact Hsuf|]. intros Hb HL. cbn [conforms leaf_ok] in *.
    assert (Hco : count_ok c (vsize c) (lenN l) = true).
    { apply count_ok_of; [exact Hv|exact Hmax|].
      destruct Hcnt as [->|Hc]; [left; reflexivity|right; rewrite N.add_0_l in Hc; exact Hc]. }
    rewrite Hco. cbn [andb]. apply forallb_Forall. apply forallb_Forall in HL.
    specialize (Hall Hb). clear - Hall HL. induction Hall; inversion HL; subst; constructor; auto.
  - (* map *)
    set (D := fun b => do (k, r1) <- dec_string c b; do (x, r2) <- decode f c nmz ed s r1; Ok ((k, x), r2)) in H.
    destruct (dec_blocks c (kvsize c) D (S (length bs)) 0 bs) as [[l r]| | |] eqn:E; cbn [bind] in H; try discriminate.
    inversion H; subst. cbn [schema_wfb] in Hwf.
    assert (HD : forall b kx r0, D b = Ok (kx, r0) -> (exists a, b = a ++ r0) /\
              (all_bytes b = true -> leaf_ok c (snd kx) = true ->
               str_ok c (fst kx) && conforms f c nmz ed s (snd kx) = true)).
    { intros b [k x] r0 Hd. unfold D, dec_string in Hd.
      destruct (dec_bytes c b) as [[kb r1]| | |] eqn:E1; cbn [bind] in Hd; try discriminate.
      destruct (utf8_ok kb) eqn:Hu; cbn [bind] in Hd; [|discriminate].
      destruct (decode f c nmz ed s r1) as [[x' r2]| | |] eqn:E2; cbn [bind] in Hd; try discriminate.
      inversion Hd; subst.
      apply dec_bytes_shape in E1 as ((a1 & ->) & Hl).
      destruct (IH s _ ed _ _ Hwf E2) as ((a2 & ->) & Hx).
      split; [exists (a1 ++ k ++ a2); rewrite <- !app_assoc; reflexivity|].
      intros Hb HLx. cbn [fst snd] in *.
      rewrite !all_bytes_app in Hb. apply andb_true_iff in Hb as [_ Hb]. apply andb_true_iff in Hb as [Hk Hb].
      unfold str_ok, bytes_ok, len_ok. rewrite Hk, Hu.
      assert (A : (lenN k <=? max_alloc c) = true) by lia. assert (B : (lenN k <? 2 ^ 63) = true) by lia.
      rewrite A, B. cbn [andb]. apply Hx; [|exact HLx]. rewrite all_bytes_app. rewrite Hb. reflexivity. }
    destruct (dec_blocks_inv D (fun kx => leaf_ok c (snd kx) = true)
                (fun kx => str_ok c (fst kx) && conforms f c nmz ed s (snd kx) = true)
                HD c (kvsize c) _ _ _ _ _ E) as (Hsuf & Hcnt & Hall).
    split; [exact Hsuf|]. intros Hb HL. cbn [conforms leaf_ok] in *.
    destruct (map_of_list_facts l) as (Hnd & Hlen & Hin).
    assert (Hco : count_ok c (kvsize c) (lenN (map_of_list l)) = true).
    { apply count_ok_of; [exact Hkv|exact Hmax|].
      destruct Hcnt as [->|Hc]; [left; reflexivity|right].
      rewrite N.add_0_l in Hc. eapply safe_coll_mono; [exact Hlen|exact Hc]. }
    rewrite Hco, Hnd. cbn [andb]. apply forallb_forall. intros kv Hkin.
    rewrite forallb_forall in HL. specialize (Hall Hb). rewrite Forall_forall in Hall.
    apply Hall; [apply Hin; exact Hkin|apply HL; exact Hkin].
  - (* union *)
    destruct (dec_long bs) as [i r| |] eqn:E; try discriminate.
    destruct (i <? 0)%Z eqn:Ei; [discriminate|].
    destruct (nth_N branches (Z.to_N i)) as [br|] eqn:Hn; [|discriminate].
    destruct (decode f c nmz ed br r) as [[x r']| | |] eqn:E2; cbn [bind] in H; try discriminate.
    inversion H; subst. cbn [schema_wfb] in Hwf. apply andb_true_iff in Hwf as [Hsm Hbr].
    apply dec_long_shape in E as (pa & -> & _).
    assert (Hbw : schema_wfb br = true).
    { rewrite forallb_forall in Hbr. apply Hbr. clear - Hn. revert Hn. generalize (Z.to_N i).
      induction branches as [|b0 bl IHb]; intros n Hn; cbn [nth_N] in Hn; [discriminate|].
      destruct (n =? 0); [inversion Hn; left; reflexivity|right; eapply IHb; exact Hn]. }
    destruct (IH br _ ed _ _ Hbw E2) as ((a2 & ->) & Hx).
    split; [exists (pa ++ a2); rewrite app_assoc; reflexivity|].
    intros Hb HL. cbn [conforms leaf_ok] in *.
    apply nth_N_lt in Hn as Hlt. apply N.leb_le in Hsm.
    rewrite N.mod_small by lia. rewrite Hn.
    assert (A : (Z.to_N i <? 2 ^ 32) = true) by lia. rewrite A. cbn [andb].
    apply Hx; [|exact HL]. eapply suffix_all_bytes; [reflexivity|exact Hb].
  - (* record *)
    destruct (dec_fields (decode f c nmz (ns (fqn n ed))) fields bs) as [[l r]| | |] eqn:E; cbn [bind] in H; try discriminate.
    inversion H; subst. cbn [schema_wfb] in Hwf. apply andb_true_iff in Hwf as [Hnd Hfs].
    destruct (dec_fields_inv (decode f c nmz (ns (fqn n ed))) (conforms f c nmz (ns (fqn n ed)))
                (fun x => leaf_ok c x = true) fields) with (bs := bs) (l := l) (r := rest) as (Hsuf & Hcf).
    { intros m s0 Hin b x r0 Hd. rewrite forallb_forall in Hfs. specialize (Hfs _ Hin). cbn [snd] in Hfs.
      exact (IH s0 b _ x r0 Hfs Hd). }
    { exact E. }
    split; [exact Hsuf|]. intros Hb HL. cbn [conforms leaf_ok] in *. rewrite Hnd. cbn [andb].
    apply Hcf; [exact Hb|]. apply forallb_Forall in HL. exact HL.
  - (* enum *)
    destruct (dec_int bs) as [z r| |] eqn:E; try discriminate.
    destruct (z <? 0)%Z eqn:Ez; [discriminate|].
    destruct (nth_N symbols (Z.to_N z)) as [sym|] eqn:Hn; [|discriminate]. inversion H; subst.
    apply dec_int_shape in E as (pa & -> & _ & Hz). apply in_i32_spec in Hz.
    split; [exists pa; reflexivity|]. intros _ _. cbn [conforms]. rewrite Hn, bytes_eqb_refl.
    assert (A : (Z.to_N z <? 2 ^ 31) = true) by lia. rewrite A. reflexivity.
  - (* fixed *)
    unfold dec_fixed in H. destruct (take (fx_size f0) bs) as [[b r]|] eqn:T; cbn [of_option bind] in H; [|discriminate].
    inversion H; subst. apply take_spec in T as (-> & Hl). split; [exists b; reflexivity|].
    intros Hb _. cbn [conforms]. rewrite all_bytes_app in Hb. apply andb_true_iff in Hb as [Hb _].
    rewrite Hb, Hl, !N.eqb_refl. reflexivity.
  - (* decimal *)
    destruct inner as [|fx].
    + destruct (dec_bytes c bs) as [[b r]| | |] eqn:E; cbn [bind] in H; try discriminate. inversion H; subst.
      apply dec_bytes_shape in E as ((pa & ->) & Hl). split; [exists (pa ++ b); rewrite <- app_assoc; reflexivity|].
      intros Hb HL. cbn [conforms leaf_ok] in *. unfold bytes_ok, len_ok.
      rewrite !all_bytes_app in Hb. apply andb_true_iff in Hb as [_ Hb]. apply andb_true_iff in Hb as [Hb _].
      rewrite Hb, HL. assert (A : (lenN b <=? max_alloc c) = true) by lia. assert (B : (lenN b <? 2 ^ 63) = true) by lia.
      rewrite A, B. reflexivity.
    + unfold dec_fixed in H. destruct (take (fx_size fx) bs) as [[b r]|] eqn:T; cbn [of_option bind] in H; [|discriminate].
      inversion H; subst. apply take_spec in T as (-> & Hl). split; [exists b; reflexivity|].
      intros Hb HL. cbn [conforms leaf_ok] in *. rewrite all_bytes_app in Hb. apply andb_true_iff in Hb as [Hb _].
      rewrite HL, Hb, Hl, N.eqb_refl. reflexivity.
  - (* big decimal *)
    destruct (dec_bytes c bs) as [[b r]| | |] eqn:E; cbn [bind] in H; try discriminate.
    unfold dec_bigdec in H.
    destruct (dec_bytes c b) as [[u r1]| | |] eqn:E1; cbn [bind] in H; try discriminate.
    destruct (dec_long r1) as [sc r2| |] eqn:E2; cbn [bind] in H; try discriminate. inversion H; subst.
    apply dec_bytes_shape in E as ((pa & ->) & Hl).
    apply dec_bytes_shape in E1 as ((a1 & ->) & Hl1).
    apply dec_long_shape in E2 as (a2 & -> & _ & Hsc).
    split; [exists (pa ++ a1 ++ u ++ a2 ++ r2); rewrite <- !app_assoc; reflexivity|].
    intros Hb HL. cbn [conforms leaf_ok] in *. apply andb_true_iff in HL as [HL1 HL2].
    rewrite minimal_idem, bytes_eqb_refl, Hsc, HL1, HL2.
    rewrite !all_bytes_app in Hb.
    repeat match goal with Hx : _ && _ = true |- _ => apply andb_true_iff in Hx; destruct Hx end.
    rewrite (minimal_all_bytes u) by assumption. reflexivity.
  - (* uuid *)
    destruct u as [| |fx].
    + unfold dec_string in H.
      destruct (dec_bytes c bs) as [[t r]| | |] eqn:E; cbn [bind] in H; try discriminate.
      destruct (utf8_ok t); cbn [bind] in H; [|discriminate].
      destruct (uuid_parse t) as [u|] eqn:Hp; [|discriminate]. inversion H; subst.
      apply dec_bytes_shape in E as ((pa & ->) & Hl). split; [exists (pa ++ t); rewrite <- app_assoc; reflexivity|].
      intros _ _. cbn [conforms]. apply uuid_parse_out in Hp as [Hl16 Hall]. rewrite Hl16, Hall. unfold len_ok.
      assert (A : (36 <=? max_alloc c) = true) by lia. rewrite A. reflexivity.
    + destruct (dec_bytes c bs) as [[b r]| | |] eqn:E; cbn [bind] in H; try discriminate.
      destruct (lenN b =? 16) eqn:E16; [|discriminate]. inversion H; subst.
      apply dec_bytes_shape in E as ((pa & ->) & Hl). split; [exists (pa ++ b); rewrite <- app_assoc; reflexivity|].
      intros Hb _. cbn [conforms]. rewrite !all_bytes_app in Hb. apply andb_true_iff in Hb as [_ Hb].
      apply andb_true_iff in Hb as [Hb _]. rewrite E16, Hb. unfold len_ok.
      assert (A : (16 <=? max_alloc c) = true) by lia. rewrite A. reflexivity.
    + unfold dec_fixed in H. destruct (take (fx_size fx) bs) as [[b r]|] eqn:T; cbn [of_option bind] in H; [|discriminate].
      destruct (fx_size fx =? 16) eqn:E16; [|discriminate]. inversion H; subst.
      apply take_spec in T as (-> & Hl). split; [exists b; reflexivity|].
      intros Hb _. cbn [conforms]. rewrite all_bytes_app in Hb. apply andb_true_iff in Hb as [Hb _].
      apply N.eqb_eq in E16. rewrite Hl, E16, Hb. reflexivity.
  - destruct (dec_int bs) as [z r| |] eqn:E; cbn [lift_long] in H; try discriminate. inversion H; subst.
    apply dec_int_shape in E as (pa & -> & _ & Hz). split; [exists pa; reflexivity|]. intros; exact Hz.
  - destruct (dec_int bs) as [z r| |] eqn:E; cbn [lift_long] in H; try discriminate. inversion H; subst.
    apply dec_int_shape in E as (pa & -> & _ & Hz). split; [exists pa; reflexivity|]. intros; exact Hz.
  - destruct (dec_long bs) as [z r| |] eqn:E; cbn [lift_long] in H; try discriminate. inversion H; subst.
    apply dec_long_shape in E as (pa & -> & _ & Hz). split; [exists pa; reflexivity|]. intros; exact Hz.
  - destruct (dec_long bs) as [z r| |] eqn:E; cbn [lift_long] in H; try discriminate. inversion H; subst.
    apply dec_long_shape in E as (pa & -> & _ & Hz). split; [exists pa; reflexivity|]. intros; exact Hz.
  - destruct (dec_long bs) as [z r| |] eqn:E; cbn [lift_long] in H; try discriminate. inversion H; subst.
    apply dec_long_shape in E as (pa & -> & _ & Hz). split; [exists pa; reflexivity|]. intros; exact Hz.
  - destruct (dec_long bs) as [z r| |] eqn:E; cbn [lift_long] in H; try discriminate. inversion H; subst.
    apply dec_long_shape in E as (pa & -> & _ & Hz). split; [exists pa; reflexivity|]. intros; exact Hz.
  - destruct (dec_long bs) as [z r| |] eqn:E; cbn [lift_long] in H; try discriminate. inversion H; subst.
    apply dec_long_shape in E as (pa & -> & _ & Hz). split; [exists pa; reflexivity|]. intros; exact Hz.
  - destruct (dec_long bs) as [z r| |] eqn:E; cbn [lift_long] in H; try discriminate. inversion H; subst.
    apply dec_long_shape in E as (pa & -> & _ & Hz). split; [exists pa; reflexivity|]. intros; exact Hz.
  - destruct (dec_long bs) as [z r| |] eqn:E; cbn [lift_long] in H; try discriminate. inversion H; subst.
    apply dec_long_shape in E as (pa & -> & _ & Hz). split; [exists pa; reflexivity|]. intros; exact Hz.
  - (* duration *)
    destruct (fx_size f0 =? 12) eqn:E12; [|discriminate].
    destruct (take 4 bs) as [[m r1]|] eqn:T1; [|discriminate].
    destruct (take 4 r1) as [[d r2]|] eqn:T2; [|discriminate].
    destruct (take 4 r2) as [[ms r3]|] eqn:T3; [|discriminate]. inversion H; subst.
    apply take_spec in T1 as (-> & L1). apply take_spec in T2 as (-> & L2). apply take_spec in T3 as (-> & L3).
    split; [exists (m ++ d ++ ms); rewrite <- !app_assoc; reflexivity|].
    intros Hb _. cbn [conforms]. rewrite !all_bytes_app in Hb.
    apply andb_true_iff in Hb as [Hm Hb]. apply andb_true_iff in Hb as [Hd Hb]. apply andb_true_iff in Hb as [Hms _].
    pose proof (of_le_bound m Hm) as B1. pose proof (of_le_bound d Hd) as B2. pose proof (of_le_bound ms Hms) as B3.
    rewrite L1 in B1. rewrite L2 in B2. rewrite L3 in B3. rewrite E12.
    apply N.ltb_lt in B1, B2, B3. change (256 ^ 4) with (2 ^ 32) in *. rewrite B1, B2, B3. reflexivity.
  - (* ref *)
    destruct (names_get (fqn n ed) nmz) as [s'|] eqn:Hget; [|discriminate].
    destruct (IH s' bs _ v rest (Hnw _ _ Hget) H) as (Hsuf & Hc).
    split; [exact Hsuf|]. intros Hb HL. cbn [conforms]. rewrite Hget. apply Hc; assumption.
Qed.
