(* The decoder's laxness on variable-length integers, in general: a terminating byte may be replaced by
   its continuation form followed by any number of empty 7-bit groups and a zero, as long as the whole
   integer stays within the ten bytes decode_variable reads (avro/src/util.rs:138-160). *)
From AvroV Require Import Base Varint.
From AvroV Require Import VarintP.
From Coq Require Import ZifyN ZifyBool ZifyNat.
Open Scope N_scope.
Ltac Zify.zify_post_hook ::= Z.div_mod_to_equations.

Definition cont (a : N) : Prop := (a / 128 =? 0) = false.
Definition padding (b : N) (k : nat) : bytes := (128 + b) :: repeat 128 k ++ [0].

Lemma dec_var_empty_groups : forall k f j acc rest,
  (k < f)%nat -> j + N.of_nat k <= 9 ->
  dec_var f j acc (repeat 128 k ++ 0 :: rest) = VOk (acc mod 2 ^ 64) rest.
Proof.
  induction k as [|k IH]; intros f j acc rest Hf Hj; (destruct f as [|f]; [lia|]).
  - cbn [repeat app dec_var].
    assert (Hj9 : (9 <? j) = false) by (apply N.ltb_ge; lia). rewrite Hj9.
    replace (0 mod 128) with 0 by reflexivity. replace (0 / 128 =? 0) with true by reflexivity.
    rewrite N.mul_0_l, N.add_0_r. reflexivity.
  - cbn [repeat app dec_var].
    assert (Hj9 : (9 <? j) = false) by (apply N.ltb_ge; lia). rewrite Hj9.
    replace (128 mod 128) with 0 by reflexivity. replace (128 / 128 =? 0) with false by reflexivity.
    rewrite N.mul_0_l, N.add_0_r. rewrite IH by lia.
    rewrite N.mod_mod; [reflexivity|]. apply N.pow_nonzero. lia.
Qed.

Lemma dec_var_padding : forall p f j acc b k rest,
  Forall cont p -> b < 128 ->
  (length p + k + 2 <= f)%nat -> j + N.of_nat (length p) + 1 + N.of_nat k <= 9 ->
  dec_var f j acc (p ++ padding b k ++ rest) = dec_var f j acc (p ++ b :: rest).
Proof.
  induction p as [|a p IH]; intros f j acc b k rest Hp Hb Hf Hj; (destruct f as [|f]; [cbn [length] in Hf; lia|]).
  - unfold padding. cbn [app dec_var]. cbn [length] in Hf, Hj.
    assert (Hj9 : (9 <? j) = false) by (apply N.ltb_ge; lia). rewrite Hj9.
    assert (Hm : (128 + b) mod 128 = b mod 128) by (symmetry; apply (N.mod_unique _ _ 1); lia).
    assert (Hd : ((128 + b) / 128 =? 0) = false).
    { apply N.eqb_neq. intro H0. apply N.div_small_iff in H0; lia. }
    assert (Hd' : (b / 128 =? 0) = true) by (apply N.eqb_eq; apply N.div_small; exact Hb).
    rewrite Hm, Hd, Hd'. rewrite <- app_assoc. cbn [app].
    rewrite dec_var_empty_groups by lia.
    rewrite N.mod_mod; [reflexivity|]. apply N.pow_nonzero. lia.
  - cbn [app dec_var]. inversion Hp as [|a' p' Ha Hp']; subst.
    unfold cont in Ha. rewrite Ha.
    destruct (9 <? j) eqn:Hj9; [reflexivity|].
    cbn [length] in Hf, Hj. apply IH; [exact Hp'|exact Hb|lia|lia].
Qed.

Theorem long_padding_invariant p b k rest :
  Forall cont p -> b < 128 -> (length p + k + 2 <= 10)%nat ->
  dec_long (p ++ padding b k ++ rest) = dec_long (p ++ b :: rest).
Proof.
  intros Hp Hb Hl. unfold dec_long. rewrite dec_var_padding; [reflexivity|exact Hp|exact Hb|lia|lia].
Qed.

(* the minimal encoding is a run of continuation bytes and one terminating byte *)
Lemma enc_var_shape : forall f z, (N.to_nat (N.log2 z / 7) < f)%nat ->
  exists p b, enc_var f z = p ++ [b] /\ Forall cont p /\ b < 128.
Proof.
  induction f as [|f IH]; intros z Hf; [lia|]. cbn [enc_var].
  destruct (z <=? 127) eqn:Hle.
  - exists [], (z mod 128). split; [reflexivity|]. split; [constructor|]. apply N.mod_lt. lia.
  - apply N.leb_gt in Hle.
    assert (Hlog : (N.to_nat (N.log2 (z / 128) / 7) < f)%nat).
    { assert (N.log2 (z / 128) = N.log2 z - 7).
      { change 128 with (2^7). rewrite <- N.shiftr_div_pow2. apply N.log2_shiftr. }
      assert (7 <= N.log2 z) by (change 7 with (N.log2 128); apply N.log2_le_mono; lia).
      assert ((N.log2 z - 7) / 7 = N.log2 z / 7 - 1).
      { replace (N.log2 z) with ((N.log2 z - 7) + 1 * 7) at 2 by lia. rewrite N.div_add by lia. lia. }
      assert (1 <= N.log2 z / 7) by (apply N.div_le_lower_bound; lia).
      lia. }
    destruct (IH (z / 128) Hlog) as (p & b & E & Hp & Hb).
    exists ((128 + z mod 128) :: p), b. rewrite E. split; [reflexivity|]. split; [|exact Hb].
    constructor; [|exact Hp]. unfold cont. apply N.eqb_neq. intro H0. apply N.div_small_iff in H0; lia.
Qed.

Lemma enc_long_shape z : in_i64 z = true ->
  exists p b, enc_long z = p ++ [b] /\ Forall cont p /\ b < 128.
Proof.
  intros Hz. unfold enc_long. apply enc_var_shape.
  pose proof (zig_bound z Hz) as Hb.
  assert (N.log2 (zig z) < 64) by (destruct (N.eq_dec (zig z) 0) as [->|]; [cbn; lia| apply N.log2_lt_pow2; lia]).
  assert (N.log2 (zig z) / 7 <= 9) by (apply N.div_le_upper_bound; lia). lia.
Qed.

(* every long whose minimal form leaves room has padded forms, and the decoder reads each of them as that long *)
Theorem long_padded_decodes z p b k rest :
  in_i64 z = true -> enc_long z = p ++ [b] -> (length p + k + 2 <= 10)%nat ->
  dec_long (p ++ padding b k ++ rest) = LOk z rest.
Proof.
  intros Hz E Hl. destruct (enc_long_shape z Hz) as (p' & b' & E' & Hp & Hb).
  rewrite E in E'. apply app_inj_tail in E' as [-> ->].
  rewrite long_padding_invariant by assumption.
  change (p' ++ b' :: rest) with (p' ++ [b'] ++ rest). rewrite app_assoc, <- E. apply long_roundtrip. exact Hz.
Qed.
