(* Lemmas for C08: the implementation model's resolve against the executable resolution specification. *)
From AvroV Require Import Base Varint Schema Bytes Names Floats Codec Conforms Validate Resolve Resolution BytesP.
From Coq Require Import ZifyN ZifyBool ZifyNat.
Open Scope N_scope.

Definition is_prim (s : schema) : bool :=
  match s with
  | SNull | SBoolean | SInt | SLong | SFloat | SDouble | SBytes | SString => true
  | _ => false
  end.

(* the values decoding with a primitive writer schema produces *)
Definition prim_typed (W : schema) (v : value) : bool :=
  match W, v with
  | SNull, VNull | SBoolean, VBoolean _ | SFloat, VFloat _ | SDouble, VDouble _
  | SBytes, VBytes _ | SString, VString _ => true
  | SInt, VInt z => in_i32 z
  | SLong, VLong z => in_i64 z
  | _, _ => false
  end.

(* the pairs on which the implementation is more lenient than the rules (known finding F28 and the
   special float strings) *)
Definition lenient (W R : schema) : bool :=
  match W, R with
  | SLong, SInt | SDouble, SFloat | SString, SFloat | SString, SDouble => true
  | _, _ => false
  end.

Lemma prim_follows_spec c nmz ens f W R v x :
  is_prim W = true -> is_prim R = true -> prim_typed W v = true ->
  prim_read W R v = Some x -> resolve (S f) c nmz ens R v = Ok x.
Proof.
  intros HW HR Hv Hs.
  destruct W; try discriminate HW; destruct v; try discriminate Hv; destruct R; try discriminate HR;
    cbn in Hs |- *; try discriminate Hs; try (injection Hs as <-; reflexivity).
  - (* bytes -> string *) destruct (utf8_ok b); [injection Hs as <-; reflexivity|discriminate Hs].
Qed.

Lemma prim_no_result_is_error c nmz ens f W R v :
  is_prim W = true -> is_prim R = true -> prim_typed W v = true -> lenient W R = false ->
  prim_read W R v = None -> resolve (S f) c nmz ens R v = Err.
Proof.
  intros HW HR Hv Hl Hs.
  destruct W; try discriminate HW; destruct v; try discriminate Hv; destruct R; try discriminate HR;
    try discriminate Hl; cbn in Hs |- *; try discriminate Hs; try reflexivity.
  - destruct (utf8_ok b); [discriminate Hs|reflexivity].
Qed.

(* records: the result has exactly the reader's fields, in the reader's order, each one the
   resolution (against the reader field's schema) of some value *)
Lemma resolve_fields_shape r jv fs : forall items out,
  resolve_fields r jv fs items = Ok out ->
  Forall2 (fun (ms : fmeta * schema) (o : str * value) =>
             fst o = f_name (fst ms) /\ exists x, r (snd ms) x = Ok (snd o)) fs out.
Proof.
  induction fs as [|[m fsch] rest IH]; intros items out H; cbn [resolve_fields] in H.
  - injection H as <-. constructor.
  - destruct (match lookup (f_name m) items with Some x => Ok x | None => _ end) as [x| | |] eqn:Ex;
      cbn [bind] in H; try discriminate H.
    destruct (r fsch x) as [y| | |] eqn:Ey; cbn [bind] in H; try discriminate H.
    destruct (resolve_fields r jv rest (remove_key (f_name m) items)) as [more| | |] eqn:Em;
      cbn [bind] in H; try discriminate H.
    injection H as <-. constructor; [|eapply IH; exact Em].
    cbn [fst snd]. split; [reflexivity|]. exists x. exact Ey.
Qed.

(* a reader field whose name is present among the written fields gets the written value, whatever
   its position; nothing else of the written record is used *)
Lemma lookup_remove_other {A} k k' (l : list (bytes * A)) :
  bytes_eqb k' k = false -> lookup k (remove_key k' l) = lookup k l.
Proof.
  intros Hne. induction l as [|[k0 v0] l IH]; cbn [remove_key lookup]; [reflexivity|].
  destruct (bytes_eqb k' k0) eqn:E0.
  - apply bytes_eqb_eq in E0. subst k0.
    destruct (bytes_eqb k k') eqn:E1; [|reflexivity].
    apply bytes_eqb_eq in E1. subst k'. rewrite bytes_eqb_refl in Hne. discriminate Hne.
  - cbn [lookup]. rewrite IH. reflexivity.
Qed.

Lemma resolve_fields_by_name r jv fs : forall items out m fsch x,
  resolve_fields r jv fs items = Ok out ->
  NoDup (map (fun ms : fmeta * schema => f_name (fst ms)) fs) ->
  In (m, fsch) fs -> lookup (f_name m) items = Some x ->
  exists y, r fsch x = Ok y /\ In (f_name m, y) out.
Proof.
  induction fs as [|[m0 fsch0] rest IH]; intros items out m fsch x H Hnd Hin Hl; [destruct Hin|].
  cbn [resolve_fields] in H.
  destruct (match lookup (f_name m0) items with Some x => Ok x | None => _ end) as [x0| | |] eqn:Ex;
    cbn [bind] in H; try discriminate H.
  destruct (r fsch0 x0) as [y0| | |] eqn:Ey; cbn [bind] in H; try discriminate H.
  destruct (resolve_fields r jv rest (remove_key (f_name m0) items)) as [more| | |] eqn:Em;
    cbn [bind] in H; try discriminate H.
  injection H as <-.
  cbn [map fst] in Hnd. apply NoDup_cons_iff in Hnd. destruct Hnd as [Hnotin Hnd].
  destruct Hin as [Heq|Hin].
  - injection Heq as <- <-. rewrite Hl in Ex. injection Ex as <-.
    exists y0. split; [exact Ey|left; reflexivity].
  - assert (Hne : bytes_eqb (f_name m0) (f_name m) = false).
    { destruct (bytes_eqb (f_name m0) (f_name m)) eqn:E; [|reflexivity].
      apply bytes_eqb_eq in E. exfalso. apply Hnotin. rewrite E.
      apply (in_map (fun ms : fmeta * schema => f_name (fst ms)) rest (m, fsch)). exact Hin. }
    destruct (IH (remove_key (f_name m0) items) more m fsch x Em Hnd Hin) as (y & Hy & Hiy).
    { rewrite lookup_remove_other by exact Hne. exact Hl. }
    exists y. split; [exact Hy|right; exact Hiy].
Qed.

(* enums: by symbol name; an unknown symbol becomes the reader's default; no default, no value *)
Lemma position_lt {A} (p : A -> bool) l i : position p l = Some i -> (i < length l)%nat.
Proof.
  revert i. induction l as [|a l IH]; intros i H; cbn [position] in H; [discriminate H|].
  destruct (p a); [injection H as <-; cbn; lia|].
  destruct (position p l) as [j|]; [|discriminate H]. injection H as <-. specialize (IH j eq_refl). cbn. lia.
Qed.

Lemma enum_known_symbol symbols dflt i sym k :
  position (bytes_eqb sym) symbols = Some k -> N.of_nat (length symbols) < 2 ^ 32 ->
  resolve_enum symbols dflt (VEnum i sym) = Ok (VEnum (N.of_nat k) sym).
Proof.
  intros Hp Hl. unfold resolve_enum. rewrite Hp. pose proof (position_lt _ _ _ Hp) as Hk.
  rewrite N.mod_small by lia. reflexivity.
Qed.

Lemma enum_unknown_symbol_default symbols d i sym k :
  position (bytes_eqb sym) symbols = None -> position (bytes_eqb d) symbols = Some k ->
  N.of_nat (length symbols) < 2 ^ 32 ->
  resolve_enum symbols (Some d) (VEnum i sym) = Ok (VEnum (N.of_nat k) d).
Proof.
  intros Hn Hp Hl. unfold resolve_enum. rewrite Hn, Hp. pose proof (position_lt _ _ _ Hp) as Hk.
  rewrite N.mod_small by lia. reflexivity.
Qed.

Lemma enum_unknown_symbol_no_default symbols i sym :
  position (bytes_eqb sym) symbols = None -> resolve_enum symbols None (VEnum i sym) = Err.
Proof. intros Hn. unfold resolve_enum. rewrite Hn. reflexivity. Qed.

(* the same three rules are what the specification function computes *)
Lemma spec_enum_unfold f wn rn we re n1 al1 d1 ws wd a1 n2 al2 d2 rs rd a2 i sym :
  spec_read (S f) wn rn we re (SEnum n1 al1 d1 ws wd a1) (SEnum n2 al2 d2 rs rd a2) (VEnum i sym) =
  if names_match n1 n2 al2 then
    match position (bytes_eqb sym) rs with
    | Some k => Some (VEnum (N.of_nat k) sym)
    | None => match rd with
              | Some d => match position (bytes_eqb d) rs with Some k => Some (VEnum (N.of_nat k) d) | None => None end
              | None => None end
    end
  else None.
Proof. reflexivity. Qed.

Lemma spec_enum f wn rn we re n1 al1 d1 ws wd a1 n2 al2 d2 rs rd a2 i sym :
  names_match n1 n2 al2 = true ->
  spec_read (S f) wn rn we re (SEnum n1 al1 d1 ws wd a1) (SEnum n2 al2 d2 rs rd a2) (VEnum i sym) =
  match position (bytes_eqb sym) rs with
  | Some k => Some (VEnum (N.of_nat k) sym)
  | None => match rd with
            | Some d => match position (bytes_eqb d) rs with Some k => Some (VEnum (N.of_nat k) d) | None => None end
            | None => None end
  end.
Proof. intros Hm. rewrite spec_enum_unfold, Hm. reflexivity. Qed.

(* resolving a resolved leaf changes nothing *)
Definition leaf_schema (s : schema) : bool :=
  match s with
  | SArray _ _ | SMap _ _ | SUnion _ | SRecord _ _ _ _ _ | SRef _ => false
  | _ => true
  end.

Lemma position_self_mod symbols sym k :
  position (bytes_eqb sym) symbols = Some k -> position (bytes_eqb sym) symbols = Some k.
Proof. trivial. Qed.

Lemma resolve_enum_idem symbols dflt v v' :
  resolve_enum symbols dflt v = Ok v' -> resolve_enum symbols dflt v' = Ok v'.
Proof.
  unfold resolve_enum.
  assert (G : forall s0, match position (bytes_eqb s0) symbols with
               | Some i => Ok (VEnum (N.of_nat i mod 2 ^ 32) s0)
               | None => match dflt with
                         | Some d => match position (bytes_eqb d) symbols with
                                     | Some i => Ok (VEnum (N.of_nat i mod 2 ^ 32) d)
                                     | None => Err end
                         | None => Err end
               end = Ok v' ->
             match v' with
             | VEnum _ s | VString s =>
               match position (bytes_eqb s) symbols with
               | Some i => Ok (VEnum (N.of_nat i mod 2 ^ 32) s)
               | None => match dflt with
                         | Some d => match position (bytes_eqb d) symbols with
                                     | Some i => Ok (VEnum (N.of_nat i mod 2 ^ 32) d)
                                     | None => Err end
                         | None => Err end
               end
             | _ => Err end = Ok v').
  { intros s0 H. destruct (position (bytes_eqb s0) symbols) as [i|] eqn:E.
    - injection H as <-. rewrite E. reflexivity.
    - destruct dflt as [d|]; [|discriminate H].
      destruct (position (bytes_eqb d) symbols) as [i|] eqn:Ed; [|discriminate H].
      injection H as <-. rewrite Ed. reflexivity. }
  destruct v; try discriminate; intros H; apply (G _ H).
Qed.

Ltac crunch H :=
  repeat (match type of H with
          | Ok _ = Ok _ => injection H as <-
          | bind ?r _ = _ => let E := fresh "E" in destruct r eqn:E; cbn [bind] in H; try discriminate H
          | (if ?b then _ else _) = _ => let E := fresh "E" in destruct b eqn:E; try discriminate H
          | match ?x with _ => _ end = _ => let E := fresh "E" in destruct x eqn:E; try discriminate H
          end).

(* the one input on which resolution is not idempotent: a string read as a fixed of another length
   (resolve_fixed takes any string; the result does not validate) *)
Definition string_for_fixed (s : schema) (v : value) : bool :=
  match s, v with
  | SFixed _, VString _ | SFixed _, VUnion _ (VString _) => true
  | _, _ => false
  end.

Definition unwrap (v : value) : value := match v with VUnion _ x => x | _ => v end.

Lemma resolve_decimal_idem p sc inner v v' :
  resolve_decimal p sc inner v = Ok v' -> resolve_decimal p sc inner v' = Ok v'.
Proof.
  unfold resolve_decimal. destruct (p <? sc); [discriminate|].
  destruct (negb match inner with DFixed fx => negb (max_prec_for_len (fx_size fx) <? p) | DBytes => true end);
    [discriminate|].
  intros H. destruct v; try discriminate H; crunch H; reflexivity.
Qed.

Lemma resolve_uuid_idem u v v' : resolve_uuid u v = Ok v' -> resolve_uuid u v' = Ok v'.
Proof. unfold resolve_uuid. intros H. destruct v; destruct u; try discriminate H; crunch H; reflexivity. Qed.

Lemma resolve_bigdecimal_idem c v v' : resolve_bigdecimal c v = Ok v' -> resolve_bigdecimal c v' = Ok v'.
Proof.
  unfold resolve_bigdecimal, dec_bigdec. intros H. destruct v; try discriminate H.
  - destruct (dec_bytes c b) as [[u r]| | |]; cbn [bind] in H; try discriminate H.
    destruct (dec_long r); try discriminate H. injection H as <-. reflexivity.
  - injection H as <-. reflexivity.
Qed.

Lemma resolve_enum_not_union symbols dflt v v' : resolve_enum symbols dflt v = Ok v' -> unwrap v' = v'.
Proof. unfold resolve_enum. intros H. destruct v; try discriminate H; crunch H; reflexivity. Qed.
Lemma resolve_decimal_not_union p sc inner v v' : resolve_decimal p sc inner v = Ok v' -> unwrap v' = v'.
Proof.
  unfold resolve_decimal. destruct (p <? sc); [discriminate|].
  destruct (negb match inner with DFixed fx => negb (max_prec_for_len (fx_size fx) <? p) | DBytes => true end);
    [discriminate|].
  intros H. destruct v; try discriminate H; crunch H; reflexivity.
Qed.
Lemma resolve_uuid_not_union u v v' : resolve_uuid u v = Ok v' -> unwrap v' = v'.
Proof. unfold resolve_uuid. intros H. destruct v; destruct u; try discriminate H; crunch H; reflexivity. Qed.
Lemma resolve_bigdecimal_not_union c v v' : resolve_bigdecimal c v = Ok v' -> unwrap v' = v'.
Proof.
  unfold resolve_bigdecimal, dec_bigdec. intros H. destruct v; try discriminate H.
  - destruct (dec_bytes c b) as [[u r]| | |]; cbn [bind] in H; try discriminate H.
    destruct (dec_long r); try discriminate H. injection H as <-. reflexivity.
  - injection H as <-. reflexivity.
Qed.

Lemma leaf_idempotent c nmz ens f s v v' :
  leaf_schema s = true -> string_for_fixed s v = false ->
  resolve (S f) c nmz ens s v = Ok v' -> resolve (S f) c nmz ens s v' = Ok v'.
Proof.
  intros Hl Hsf H.
  destruct s; try discriminate Hl.
  9: { (* enum *)
    assert (U : forall x, resolve (S f) c nmz ens (SEnum n al doc symbols default a) x
                          = resolve_enum symbols default (unwrap x)) by (intros []; reflexivity).
    rewrite U in H |- *. rewrite (resolve_enum_not_union _ _ _ _ H). eapply resolve_enum_idem; exact H. }
  10: { (* decimal *)
    assert (U : forall x, resolve (S f) c nmz ens (SDecimal precision scale inner) x
                          = resolve_decimal precision scale inner (unwrap x)) by (intros []; reflexivity).
    rewrite U in H |- *. rewrite (resolve_decimal_not_union _ _ _ _ _ H). eapply resolve_decimal_idem; exact H. }
  10: { (* big-decimal *)
    assert (U : forall x, resolve (S f) c nmz ens SBigDecimal x = resolve_bigdecimal c (unwrap x)) by (intros []; reflexivity).
    rewrite U in H |- *. rewrite (resolve_bigdecimal_not_union _ _ _ H). eapply resolve_bigdecimal_idem; exact H. }
  10: { (* uuid *)
    assert (U : forall x, resolve (S f) c nmz ens (SUuid u) x = resolve_uuid u (unwrap x)) by (intros []; reflexivity).
    rewrite U in H |- *. rewrite (resolve_uuid_not_union _ _ _ H). eapply resolve_uuid_idem; exact H. }
  all: destruct v; try (cbn in H; discriminate H).
  all: try (cbn in H; crunch H; cbn; rewrite ?N.eqb_refl; try reflexivity; fail).
  - (* fixed: a string is excluded *) discriminate Hsf.
  - cbn in H. destruct (n =? fx_size f0) eqn:E; [|discriminate H]. injection H as <-. cbn. rewrite E. reflexivity.
  - (* under a union value *)
    cbn in H. destruct v as [| | | | | |bb|ss|nn bb| | | | | | | | | | | | | | | | | |]; try discriminate H; try discriminate Hsf.
    + destruct (lenN bb =? fx_size f0) eqn:E; [|discriminate H]. injection H as <-.
      cbn. rewrite N.eqb_refl. reflexivity.
    + destruct (nn =? fx_size f0) eqn:E; [|discriminate H]. injection H as <-. cbn. rewrite E. reflexivity.
Qed.
