(* Validation vs. encoding: rejected values write nothing; benign non-canonical leaves are written
   in the canonical representation. *)
From AvroV Require Import Base Varint Schema Bytes Names Floats Codec Conforms Validate SingleObject Resolve Container.
From AvroV Require Import VarintP BytesP CodecP ValidateP SingleObjectP.
From Coq Require Import ZifyN ZifyBool ZifyNat.
Open Scope N_scope.

Lemma rejected_datum fuel find nmz s v :
  validate fuel find nmz None s v = Ok false -> write_value fuel find true nmz s v = Err.
Proof. intros H. unfold write_value. rewrite H. reflexivity. Qed.

Lemma rejected_so fuel find nmz s v hdr :
  validate fuel find nmz (schema_ns s) s v = Ok false -> 10 <= lenN hdr <= 20 ->
  so_datum fuel find nmz s v = Err /\
  forall sink_ok, so_write hdr (so_datum fuel find nmz s v) sink_ok = (hdr, SoValueErr).
Proof.
  intros H Hh. assert (E : so_datum fuel find nmz s v = Err) by (unfold so_datum; rewrite H; reflexivity).
  split; [exact E|]. intros sk. rewrite E. unfold so_write.
  assert (Eh : ((10 <=? lenN hdr) && (lenN hdr <=? 20)) = true) by lia. rewrite Eh.
  rewrite firstn_length_self. reflexivity.
Qed.

(* the canonical representation of a benign non-canonical leaf *)
Definition leaf_canon (s : schema) (v : value) : option value :=
  match s, v with
  | SLong, VInt z => if in_i32 z then Some (VLong z) else None
  | SDate, VInt z => if in_i32 z then Some (VDate z) else None
  | STimeMillis, VInt z => if in_i32 z then Some (VTimeMillis z) else None
  | STimeMicros, VLong z => if in_i64 z then Some (VTimeMicros z) else None
  | STimestampMillis, VLong z => if in_i64 z then Some (VTimestampMillis z) else None
  | STimestampMicros, VLong z => if in_i64 z then Some (VTimestampMicros z) else None
  | SLocalTimestampMillis, VLong z => if in_i64 z then Some (VLocalTimestampMillis z) else None
  | SLocalTimestampMicros, VLong z => if in_i64 z then Some (VLocalTimestampMicros z) else None
  | SFixed fx, VBytes b => if lenN b =? fx_size fx then Some (VFixed (fx_size fx) b) else None
  | SEnum _ _ _ symbols _ _, VString t =>
    match position (bytes_eqb t) symbols with
    | Some i => if N.of_nat i <? 2 ^ 31 then Some (VEnum (N.of_nat i) t) else None
    | None => None
    end
  | _, _ => None
  end.

Lemma position_nth {A} (p : A -> bool) l i : position p l = Some i ->
  exists x, nth_error l i = Some x /\ p x = true.
Proof.
  revert i. induction l as [|y l IH]; intros i H; cbn [position] in H; [discriminate|].
  destruct (p y) eqn:E.
  - inversion H; subst. exists y. split; [reflexivity|exact E].
  - destruct (position p l) as [j|]; [|discriminate]. inversion H; subst.
    destruct (IH j eq_refl) as (x & Hx & Hp). exists x. split; [exact Hx|exact Hp].
Qed.

Theorem leaf_table c nmz find e s v cv f g rest :
  leaf_canon s v = Some cv ->
  validate (S f) find nmz e s v = Ok true /\
  exists bs, encode (S f) nmz e s v = Ok bs /\ decode (S g) c nmz e s (bs ++ rest) = Ok (cv, rest).
Proof.
  intros H. destruct s; destruct v; cbn [leaf_canon] in H; try discriminate.
  - (* long / int *)
    destruct (in_i32 z) eqn:Hz; [|discriminate]. inversion H; subst. split; [reflexivity|].
    exists (enc_long z). split; [reflexivity|]. cbn [decode]. rewrite long_roundtrip by (apply in_i32_i64; exact Hz). reflexivity.
  - (* enum / string *)
    destruct (position (bytes_eqb s) symbols) as [i|] eqn:Hp; [|discriminate].
    destruct (N.of_nat i <? 2 ^ 31) eqn:Hi; [|discriminate]. inversion H; subst. apply N.ltb_lt in Hi.
    destruct (position_nth _ _ _ Hp) as (y & Hn & Hy). apply bytes_eqb_eq in Hy. subst y.
    split.
    + cbn [validate]. f_equal. clear - Hn. revert i Hn. induction symbols as [|y l IH]; intros [|i] Hn; cbn in Hn; try discriminate.
      * inversion Hn; subst. cbn [existsb]. rewrite bytes_eqb_refl. reflexivity.
      * cbn [existsb]. rewrite (IH i Hn). apply orb_true_r.
    + exists (enc_long (wrap_i32 (N.of_nat i))). split; [cbn [encode]; rewrite Hp; reflexivity|].
      cbn [decode]. unfold wrap_i32. assert (E : (N.of_nat i <? 2 ^ 31) = true) by (apply N.ltb_lt; exact Hi). rewrite E.
      rewrite int_roundtrip by (apply in_i32_spec; lia).
      assert (E1 : (Z.of_N (N.of_nat i) <? 0)%Z = false) by lia. rewrite E1, N2Z.id, nth_N_spec, Hn. reflexivity.
  - (* fixed / bytes *)
    destruct (lenN b =? fx_size f0) eqn:Hl; [|discriminate]. inversion H; subst. apply N.eqb_eq in Hl.
    split; [cbn [validate]; rewrite Hl, N.eqb_refl; reflexivity|].
    exists b. split; [reflexivity|]. cbn [decode]. unfold dec_fixed. rewrite (take_app_n (fx_size f0)) by exact Hl. reflexivity.
  - (* date / int *)
    destruct (in_i32 z) eqn:Hz; [|discriminate]. inversion H; subst. split; [reflexivity|].
    exists (enc_long z). split; [reflexivity|]. cbn [decode]. rewrite int_roundtrip by exact Hz. reflexivity.
  - destruct (in_i32 z) eqn:Hz; [|discriminate]. inversion H; subst. split; [reflexivity|].
    exists (enc_long z). split; [reflexivity|]. cbn [decode]. rewrite int_roundtrip by exact Hz. reflexivity.
  - destruct (in_i64 z) eqn:Hz; [|discriminate]. inversion H; subst. split; [reflexivity|].
    exists (enc_long z). split; [reflexivity|]. cbn [decode]. rewrite long_roundtrip by exact Hz. reflexivity.
  - destruct (in_i64 z) eqn:Hz; [|discriminate]. inversion H; subst. split; [reflexivity|].
    exists (enc_long z). split; [reflexivity|]. cbn [decode]. rewrite long_roundtrip by exact Hz. reflexivity.
  - destruct (in_i64 z) eqn:Hz; [|discriminate]. inversion H; subst. split; [reflexivity|].
    exists (enc_long z). split; [reflexivity|]. cbn [decode]. rewrite long_roundtrip by exact Hz. reflexivity.
  - destruct (in_i64 z) eqn:Hz; [|discriminate]. inversion H; subst. split; [reflexivity|].
    exists (enc_long z). split; [reflexivity|]. cbn [decode]. rewrite long_roundtrip by exact Hz. reflexivity.
  - destruct (in_i64 z) eqn:Hz; [|discriminate]. inversion H; subst. split; [reflexivity|].
    exists (enc_long z). split; [reflexivity|]. cbn [decode]. rewrite long_roundtrip by exact Hz. reflexivity.
Qed.
