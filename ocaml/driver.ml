(* Model driver: reads one case term per line on stdin, prints one observation term per line.
   Trusted glue only: text <-> sexp conversion.  All model logic is in the extracted Model. *)
module M = Model

let rec pos_of_z (x : Z.t) : M.positive =
  if Z.equal x Z.one then M.XH
  else if Z.testbit x 0 then M.XI (pos_of_z (Z.shift_right x 1))
  else M.XO (pos_of_z (Z.shift_right x 1))
let n_of_z (x : Z.t) : M.n = if Z.sign x = 0 then M.N0 else M.Npos (pos_of_z x)
let n_of_int i = n_of_z (Z.of_int i)
let cz_of_z (x : Z.t) : M.z =
  let s = Z.sign x in
  if s = 0 then M.Z0 else if s > 0 then M.Zpos (pos_of_z x) else M.Zneg (pos_of_z (Z.neg x))
let rec z_of_pos (p : M.positive) : Z.t =
  match p with
  | M.XH -> Z.one
  | M.XO q -> Z.shift_left (z_of_pos q) 1
  | M.XI q -> Z.succ (Z.shift_left (z_of_pos q) 1)
let z_of_n = function M.N0 -> Z.zero | M.Npos p -> z_of_pos p
let z_of_cz = function M.Z0 -> Z.zero | M.Zpos p -> z_of_pos p | M.Zneg p -> Z.neg (z_of_pos p)

let ascii_of_char c =
  let i = Char.code c in
  let b k = (i lsr k) land 1 = 1 in
  M.Ascii (b 0, b 1, b 2, b 3, b 4, b 5, b 6, b 7)
let char_of_ascii (M.Ascii (a, b, c, d, e, f, g, h)) =
  let v x k = if x then 1 lsl k else 0 in
  Char.chr (v a 0 + v b 1 + v c 2 + v d 3 + v e 4 + v f 5 + v g 6 + v h 7)
let coq_string_of s =
  let r = ref M.EmptyString in
  for i = String.length s - 1 downto 0 do r := M.String (ascii_of_char s.[i], !r) done;
  !r
let string_of_coq s =
  let b = Buffer.create 16 in
  let rec go = function M.EmptyString -> () | M.String (a, r) -> Buffer.add_char b (char_of_ascii a); go r in
  go s; Buffer.contents b

let hexval c =
  match c with
  | '0' .. '9' -> Char.code c - 48
  | 'a' .. 'f' -> Char.code c - 87
  | _ -> failwith "bad hex"
let bytes_of_hex s =
  (* s without the leading '#' *)
  let n = String.length s / 2 in
  let r = ref [] in
  for i = n - 1 downto 0 do
    r := n_of_int (hexval s.[2 * i] * 16 + hexval s.[2 * i + 1]) :: !r
  done;
  !r

(* tokenizer / parser *)
let parse (line : string) : M.sexp =
  let len = String.length line in
  let pos = ref 0 in
  let rec skip () = if !pos < len && (line.[!pos] = ' ' || line.[!pos] = '\t') then (incr pos; skip ()) in
  let rec term () : M.sexp =
    skip ();
    if !pos >= len then failwith "eof";
    if line.[!pos] = '(' then begin
      incr pos;
      let items = ref [] in
      let rec loop () =
        skip ();
        if !pos >= len then failwith "unclosed";
        if line.[!pos] = ')' then incr pos
        else begin items := term () :: !items; loop () end in
      loop ();
      M.L (List.rev !items)
    end else begin
      let st = !pos in
      while !pos < len && line.[!pos] <> ' ' && line.[!pos] <> '(' && line.[!pos] <> ')' do incr pos done;
      let tok = String.sub line st (!pos - st) in
      let c = tok.[0] in
      if c = '#' then M.Hex (bytes_of_hex (String.sub tok 1 (String.length tok - 1)))
      else if (c >= '0' && c <= '9') || (c = '-' && String.length tok > 1) then M.Num (cz_of_z (Z.of_string tok))
      else M.Sym (coq_string_of tok)
    end in
  term ()

let hexdigits = "0123456789abcdef"
let rec print (b : Buffer.t) (x : M.sexp) : unit =
  match x with
  | M.Sym s -> Buffer.add_string b (string_of_coq s)
  | M.Num z -> Buffer.add_string b (Z.to_string (z_of_cz z))
  | M.Hex l ->
    Buffer.add_char b '#';
    List.iter (fun n ->
        let i = Z.to_int (z_of_n n) in
        if i > 255 then failwith "byte out of range";
        Buffer.add_char b hexdigits.[i lsr 4]; Buffer.add_char b hexdigits.[i land 15]) l
  | M.L l ->
    Buffer.add_char b '(';
    List.iteri (fun i y -> if i > 0 then Buffer.add_char b ' '; print b y) l;
    Buffer.add_char b ')'

let () =
  let b = Buffer.create 4096 in
  (try
     while true do
       let line = input_line stdin in
       if String.length line > 0 then begin
         Buffer.clear b;
         (* a line is "<id> <term>": the id is echoed *)
         let sp = String.index line ' ' in
         let id = String.sub line 0 sp in
         let body = String.sub line (sp + 1) (String.length line - sp - 1) in
         (match (try Some (parse body) with _ -> None) with
          | None -> Buffer.add_string b "(unparsable)"
          | Some c -> (try print b (M.run_case c) with Stack_overflow -> Buffer.clear b; Buffer.add_string b "(stack-overflow)"));
         print_string id; print_char ' '; print_string (Buffer.contents b); print_newline ()
       end
     done
   with End_of_file -> ())
