#!/bin/sh
# builds the extracted model + driver (model.ml is produced by the Coq build)
set -e
cd "$(dirname "$0")"
ocamlfind ocamlopt -O3 -package zarith -linkpkg -w -a model.mli model.ml driver.ml -o model_driver 2>/dev/null || \
ocamlfind ocamlopt -package zarith -linkpkg -w -a model.mli model.ml driver.ml -o model_driver
